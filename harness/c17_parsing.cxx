// C17: text and header input is parsed faithfully or rejected, never mis-handled (DESIGN.md §6 C17).
//
// Modes (VERIF_MODE): "roundtrip" (a) print->parse->print fixed point for every registered class,
//                     "truncate"  (b) every truncation (line / byte) of every corpus seed through every entry point,
//                     "mutate"    (b) grammar-aware mutation campaign on headers / parameter texts STIR wrote itself,
//                     "keywords"  (c) keyword case / white-space / alias / vector-index behaviour against a reference normaliser.
//
// Every single parse runs in a forked child (so one process executes thousands of inputs, and one crash costs one input):
// the child reports its outcome through a pipe; if it dies, the parent reads the sanitizer log / stderr of the child and
// reports a violation keyed by sanitizer kind + first STIR frames (same scheme as the driver).  VERIF_C17_NOFORK=1 runs
// everything in-process (then a crash kills the harness and the driver attributes it to the heartbeat stage).
// An operator-new replacement records the largest request during a parse, refuses requests above a cap (bad_alloc) and
// flags requests > 1 GiB as `unbounded-allocation:<parser class>`.
//
// Verdict policy (see vlib/propdefs/c17.py): violations are sanitizer reports about memory / null / division by zero, failed
// asserts, signals, > 1 GiB single allocations, accepted objects failing the consistency checks, and (release build only)
// > 120 s CPU for one input.  Purely arithmetic UBSan reports (signed overflow, float->int out of range) and the 20 s CPU
// budget of the sanitizer build are counted, not reported.  Keys: sanitizer kind + first two STIR frames (+ ":freed-in:<frame>"
// for use-after-free); violations without a stack (signals in the release build) carry the entry point and the keyword of the
// header line that the last mutation step changed.  Inputs with several mutations are re-run by prefixes and the shortest
// mis-handled prefix is reported.  VERIF_C17_DEBUG=1 prints every child's outcome and stderr.
#include "common/verif.h"
#include "common/gen.h"
#include "stir/KeyParser.h"
#include "stir/interfile_keyword_functions.h"
#include "stir/RegisteredObjectBase.h"
#include "stir/MultipleDataSetHeader.h"
#include "stir/MultipleProjData.h"
#include "stir/IO/interfile.h"
#include "stir/IO/InterfileOutputFileFormat.h"
#include "stir/IO/InterfileDynamicDiscretisedDensityOutputFileFormat.h"
#include "stir/IO/read_from_file.h"
#include "stir/IO/OutputFileFormat.h"
#include "stir/DiscretisedDensity.h"
#include "stir/DynamicDiscretisedDensity.h"
#include "stir/modelling/ParametricDiscretisedDensity.h"
#include "stir/modelling/KineticModel.h"
#include "stir/ProjData.h"
#include "stir/ProjDataInterfile.h"
#include "stir/ProjDataFromStream.h"
#include "stir/SegmentByView.h"
#include "stir/ExamInfo.h"
#include "stir/TimeFrameDefinitions.h"
#include "stir/NumericType.h"
#include "stir/ByteOrder.h"
#include "stir/DataProcessor.h"
#include "stir/Shape/Shape3D.h"
#include "stir/data/SinglesRates.h"
#include "stir/scatter/ScatterSimulation.h"
#include "stir/spatial_transformation/SpatialTransformation.h"
#include "stir/recon_buildblock/ProjMatrixByBin.h"
#include "stir/recon_buildblock/ForwardProjectorByBin.h"
#include "stir/recon_buildblock/BackProjectorByBin.h"
#include "stir/recon_buildblock/ProjectorByBinPair.h"
#include "stir/recon_buildblock/BinNormalisation.h"
#include "stir/recon_buildblock/GeneralisedPrior.h"
#include "stir/recon_buildblock/GeneralisedObjectiveFunction.h"
#include "stir/recon_buildblock/Reconstruction.h"
#include "stir/recon_buildblock/ProjDataRebinning.h"
#include "stir/error.h"
#include <fstream>
#include <sstream>
#include <new>
#include <regex>
#include <sys/wait.h>
#include <dirent.h>
#include <sys/resource.h>
#include <sys/stat.h>
#include <signal.h>

using namespace stir;
using vf::Ctx;

// =====================================================================================================================
// allocation guard
// =====================================================================================================================
namespace {
constexpr size_t GiB = 1ull << 30;
struct AllocGuard
{
  volatile bool active = false;
  size_t max_req = 0;
  size_t refused_max = 0;
  size_t last_big = 0; // growth pattern of the requests >= 1 MiB: a buffer that keeps doubling is a runaway loop,
  int streak = 0;      // not an allocation sized by a number in the input
  bool runaway = false;
  size_t cap_fail = 1ull << 30; // requests above 1 GiB fail with bad_alloc and are the violation the statement names; everything
                                // up to that is served, so that runaway growth (e.g. a line buffer doubling for ever) reaches it
  int notify_fd = -1;
} g_alloc;

inline void
alloc_notify(size_t n)
{
  if (g_alloc.notify_fd < 0)
    return;
  // record 'R' <u32 len><digits><u32 0>, built without allocating
  char digits[24];
  int nd = 0;
  size_t v = n;
  do
    {
      digits[nd++] = static_cast<char>('0' + v % 10);
      v /= 10;
  } while (v);
  char rec[40];
  int p = 0;
  rec[p++] = 'R';
  uint32_t l = static_cast<uint32_t>(nd);
  std::memcpy(rec + p, &l, 4);
  p += 4;
  for (int i = nd - 1; i >= 0; --i)
    rec[p++] = digits[i];
  l = g_alloc.runaway ? 1 : 0; // second field: "g" when the request is the end of a run of >= 8 growing requests
  std::memcpy(rec + p, &l, 4);
  p += 4;
  if (g_alloc.runaway)
    rec[p++] = 'g';
  ssize_t w = ::write(g_alloc.notify_fd, rec, static_cast<size_t>(p));
  (void)w;
}

inline void*
guarded_alloc(size_t n, size_t align, bool nothrow)
{
  if (g_alloc.active)
    {
      if (n > g_alloc.max_req)
        g_alloc.max_req = n;
      if (n >= (1u << 20) && n > g_alloc.last_big)
        {
          g_alloc.streak = (g_alloc.last_big && n <= 3 * g_alloc.last_big) ? g_alloc.streak + 1 : 1;
          g_alloc.last_big = n;
          if (g_alloc.streak >= 8)
            g_alloc.runaway = true;
        }
      if (n > g_alloc.cap_fail)
        {
          if (n > g_alloc.refused_max)
            g_alloc.refused_max = n;
          alloc_notify(n);
          if (nothrow)
            return nullptr;
          throw std::bad_alloc();
        }
    }
  void* p = nullptr;
  if (align > sizeof(void*))
    {
      if (posix_memalign(&p, align, n ? n : 1) != 0)
        p = nullptr;
    }
  else
    p = std::malloc(n ? n : 1);
  if (!p && !nothrow)
    throw std::bad_alloc();
  return p;
}
} // namespace

void*
operator new(std::size_t n)
{
  return guarded_alloc(n, 0, false);
}
void*
operator new[](std::size_t n)
{
  return guarded_alloc(n, 0, false);
}
void*
operator new(std::size_t n, const std::nothrow_t&) noexcept
{
  return guarded_alloc(n, 0, true);
}
void*
operator new[](std::size_t n, const std::nothrow_t&) noexcept
{
  return guarded_alloc(n, 0, true);
}
void*
operator new(std::size_t n, std::align_val_t a)
{
  return guarded_alloc(n, static_cast<size_t>(a), false);
}
void*
operator new[](std::size_t n, std::align_val_t a)
{
  return guarded_alloc(n, static_cast<size_t>(a), false);
}
void
operator delete(void* p) noexcept
{
  std::free(p);
}
void
operator delete[](void* p) noexcept
{
  std::free(p);
}
void
operator delete(void* p, std::size_t) noexcept
{
  std::free(p);
}
void
operator delete[](void* p, std::size_t) noexcept
{
  std::free(p);
}
void
operator delete(void* p, const std::nothrow_t&) noexcept
{
  std::free(p);
}
void
operator delete[](void* p, const std::nothrow_t&) noexcept
{
  std::free(p);
}
void
operator delete(void* p, std::align_val_t) noexcept
{
  std::free(p);
}
void
operator delete[](void* p, std::align_val_t) noexcept
{
  std::free(p);
}
void
operator delete(void* p, std::size_t, std::align_val_t) noexcept
{
  std::free(p);
}
void
operator delete[](void* p, std::size_t, std::align_val_t) noexcept
{
  std::free(p);
}

namespace {
struct AllocScope
{
  AllocScope()
  {
    g_alloc.max_req = 0;
    g_alloc.refused_max = 0;
    g_alloc.last_big = 0;
    g_alloc.streak = 0;
    g_alloc.runaway = false;
    g_alloc.active = true;
  }
  ~AllocScope() { g_alloc.active = false; }
};

// =====================================================================================================================
// small utilities
// =====================================================================================================================
std::string
slurp(const std::string& path)
{
  std::ifstream in(path, std::ios::binary);
  std::ostringstream s;
  s << in.rdbuf();
  return s.str();
}
void
spit(const std::string& path, const std::string& text)
{
  std::ofstream o(path, std::ios::binary | std::ios::trunc);
  o.write(text.data(), static_cast<std::streamsize>(text.size()));
}
long
file_len(const std::string& path)
{
  struct stat st;
  if (::stat(path.c_str(), &st) != 0 || !S_ISREG(st.st_mode))
    return -1;
  return static_cast<long>(st.st_size);
}
std::vector<std::string>
split_lines(const std::string& t)
{
  std::vector<std::string> v;
  std::string cur;
  for (char c : t)
    {
      if (c == '\n')
        {
          v.push_back(cur);
          cur.clear();
        }
      else
        cur += c;
    }
  if (!cur.empty())
    v.push_back(cur);
  return v;
}
std::string
join_lines(const std::vector<std::string>& v)
{
  std::string t;
  for (auto& l : v)
    {
      t += l;
      t += '\n';
    }
  return t;
}
std::string
clip(const std::string& s, size_t n = 1800)
{
  if (s.size() <= n)
    return s;
  return s.substr(0, n) + "...[" + std::to_string(s.size()) + " bytes]";
}
std::string
keyify(const std::string& s)
{
  std::string o;
  for (char c : s)
    {
      if (std::isalnum(static_cast<unsigned char>(c)) || c == '_' || c == '-' || c == '<' || c == '>' || c == ',' || c == '%' || c == '(' || c == ')'
          || c == '/')
        o += c;
      else if (!o.empty() && o.back() != '_')
        o += '_';
    }
  return o.substr(0, 150);
}

// capture STIR warnings (used to learn the start keyword of a parser)
struct CaptureWriter : public aTextWriter
{
  mutable std::string text;
  void write(const char* s) const override
  {
    if (text.size() < 20000)
      text += s;
  }
};

// =====================================================================================================================
// reference keyword normaliser (written from the documentation in KeyParser.h / interfile_keyword_functions.h):
//  space, tab, underscore and '!' are white space; leading/trailing white space is trimmed; repeated white space becomes
//  one space; letters are made lower case.
// =====================================================================================================================
bool
ref_is_ws(char c)
{
  return c == ' ' || c == '\t' || c == '_' || c == '!';
}
std::string
ref_norm(const std::string& kw)
{
  size_t b = 0, e = kw.size();
  while (b < e && ref_is_ws(kw[b]))
    ++b;
  while (e > b && ref_is_ws(kw[e - 1]))
    --e;
  std::string o;
  bool prev_ws = false;
  for (size_t i = b; i < e; ++i)
    {
      if (ref_is_ws(kw[i]))
        {
          if (!prev_ws)
            o += ' ';
          prev_ws = true;
        }
      else
        {
          char c = kw[i];
          if (c >= 'A' && c <= 'Z')
            c = static_cast<char>(c - 'A' + 'a');
          o += c;
          prev_ws = false;
        }
    }
  return o;
}

// one "keyword[index] := value" line, split by the documented grammar
struct RefLine
{
  bool is_assignment = false;
  std::string kw_raw;   // text before '[' or ":="
  std::string kw;       // normalised
  bool has_index = false;
  std::string index_raw;
  std::string value;    // trimmed of spaces/tabs
  size_t kw_end = 0;    // position in the line where the keyword part ends
  size_t value_begin = 0; // position just after ":="
};
RefLine
ref_split(const std::string& line)
{
  RefLine r;
  const size_t as = line.find(":=");
  if (as == std::string::npos)
    return r;
  size_t first_ns = line.find_first_not_of(" \t");
  if (first_ns != std::string::npos && line[first_ns] == ';')
    return r;
  r.is_assignment = true;
  const size_t br = line.find('[');
  if (br != std::string::npos && br < as)
    {
      r.kw_end = br;
      const size_t cb = line.find(']', br);
      if (cb != std::string::npos && cb < as)
        {
          r.has_index = true;
          r.index_raw = line.substr(br + 1, cb - br - 1);
        }
    }
  else
    r.kw_end = as;
  r.kw_raw = line.substr(0, r.kw_end);
  r.kw = ref_norm(r.kw_raw);
  r.value_begin = as + 2;
  std::string v = line.substr(as + 2);
  size_t b = v.find_first_not_of(" \t\r");
  size_t e = v.find_last_not_of(" \t\r");
  r.value = (b == std::string::npos) ? std::string() : v.substr(b, e - b + 1);
  return r;
}
// all values given to a keyword anywhere in the text (any index); "simple" = no continuation / environment syntax
struct RefScan
{
  std::vector<RefLine> lines;
  bool simple = true;
  explicit RefScan(const std::string& text)
  {
    if (text.find('\\') != std::string::npos || text.find("${") != std::string::npos)
      simple = false;
    for (auto& l : split_lines(text))
      lines.push_back(ref_split(l));
  }
  std::vector<std::string> values(const std::string& kw_norm) const
  {
    std::vector<std::string> v;
    for (auto& l : lines)
      if (l.is_assignment && l.kw == kw_norm)
        v.push_back(l.value);
    return v;
  }
};

// =====================================================================================================================
// isolated execution of one parse
// =====================================================================================================================
struct Result
{
  int status = 0; // 0 rejected, 1 accepted and consistent, 2 violation(s), 3 not applicable
  std::string how;
  std::vector<std::pair<std::string, std::string>> viols;
  std::map<std::string, long> counts;
  size_t max_alloc = 0;
  size_t refused_max = 0;
  bool runaway = false; // the refused request ended a run of >= 8 growing requests (1 MiB -> > 1 GiB)
  std::string text; // payload returned to the parent
  bool complete = false;
  void viol(const std::string& k, const std::string& w)
  {
    viols.emplace_back(k, w);
    status = 2;
  }
  void count(const std::string& k, long n = 1) { counts[k] += n; }
};

void
put_rec(std::string& buf, char tag, const std::string& a, const std::string& b = std::string())
{
  buf += tag;
  uint32_t l = static_cast<uint32_t>(a.size());
  buf.append(reinterpret_cast<const char*>(&l), 4);
  buf += a;
  l = static_cast<uint32_t>(b.size());
  buf.append(reinterpret_cast<const char*>(&l), 4);
  buf += b;
}
std::string
encode(const Result& r)
{
  std::string buf;
  put_rec(buf, 'S', std::to_string(r.status), r.how);
  for (auto& v : r.viols)
    put_rec(buf, 'V', v.first, v.second);
  for (auto& c : r.counts)
    put_rec(buf, 'C', c.first, std::to_string(c.second));
  put_rec(buf, 'A', std::to_string(r.max_alloc), std::to_string(r.refused_max));
  put_rec(buf, 'G', r.runaway ? "1" : "0", "");
  put_rec(buf, 'T', r.text);
  put_rec(buf, 'E', "");
  return buf;
}
void
decode(const std::string& buf, Result& r)
{
  size_t p = 0;
  while (p + 9 <= buf.size())
    {
      const char tag = buf[p++];
      uint32_t l1, l2;
      std::memcpy(&l1, buf.data() + p, 4);
      p += 4;
      if (p + l1 + 4 > buf.size())
        return;
      std::string a = buf.substr(p, l1);
      p += l1;
      std::memcpy(&l2, buf.data() + p, 4);
      p += 4;
      if (p + l2 > buf.size())
        return;
      std::string b = buf.substr(p, l2);
      p += l2;
      switch (tag)
        {
        case 'S':
          r.status = std::atoi(a.c_str());
          r.how = b;
          break;
        case 'V':
          r.viols.emplace_back(a, b);
          break;
        case 'C':
          r.counts[a] += std::atol(b.c_str());
          break;
        case 'A':
          r.max_alloc = std::max(r.max_alloc, static_cast<size_t>(std::strtoull(a.c_str(), nullptr, 10)));
          r.refused_max = std::max(r.refused_max, static_cast<size_t>(std::strtoull(b.c_str(), nullptr, 10)));
          break;
        case 'G':
          r.runaway = r.runaway || a == "1";
          break;
        case 'R':
          r.runaway = r.runaway || b == "g";
          r.refused_max = std::max(r.refused_max, static_cast<size_t>(std::strtoull(a.c_str(), nullptr, 10)));
          r.max_alloc = std::max(r.max_alloc, r.refused_max);
          break;
        case 'T':
          r.text = a;
          break;
        case 'E':
          r.complete = true;
          break;
        default:
          return;
        }
    }
}

std::string
short_fn(std::string fn)
{
  size_t p = fn.find('(');
  if (p != std::string::npos)
    fn = fn.substr(0, p);
  for (int rep = 0; rep < 3; ++rep)
    {
      // remove innermost <...>
      std::string o;
      size_t i = 0;
      while (i < fn.size())
        {
          if (fn[i] == '<')
            {
              size_t j = i + 1;
              while (j < fn.size() && fn[j] != '<' && fn[j] != '>')
                ++j;
              if (j < fn.size() && fn[j] == '>')
                {
                  i = j + 1;
                  continue;
                }
            }
          o += fn[i++];
        }
      fn = o;
    }
  while (!fn.empty() && fn.back() == ' ')
    fn.pop_back();
  p = fn.rfind(' ');
  if (p != std::string::npos)
    fn = fn.substr(p + 1);
  if (fn.size() > 80)
    fn = fn.substr(fn.size() - 80);
  return fn;
}
std::string
base_name(const std::string& p)
{
  size_t s = p.rfind('/');
  return s == std::string::npos ? p : p.substr(s + 1);
}

// key for a dead child from its sanitizer log / stderr (same scheme as vlib/run.py)
std::string
triage_dead_child(const std::string& text_in, int wstatus, const std::string& entry, std::string& excerpt)
{
  std::string text = text_in.substr(0, 40000);
  std::vector<std::string> frames;
  {
    static const std::regex fr("#[0-9]+ 0x[0-9a-f]+ in (.+?) (/[^ \n]+?):([0-9]+)");
    for (std::sregex_iterator it(text.begin(), text.end(), fr), end; it != end && frames.size() < 2; ++it)
      {
        const std::string path = (*it)[2];
        if (path.find("/src/") == std::string::npos || path.find("/harness/") != std::string::npos)
          continue;
        frames.push_back(short_fn((*it)[1]) + "@" + base_name(path));
      }
  }
  std::string fr_s;
  for (auto& f : frames)
    fr_s += ":" + f;
  std::smatch m;
  static const std::regex as_re("([^ \n:]+):([0-9]+): (.+?): Assertion `([^\n]*)' failed");
  if (std::regex_search(text, m, as_re))
    {
      excerpt = m[0];
      std::string expr = m[4];
      expr = expr.substr(0, 60);
      return "assert:" + base_name(m[1]) + ":" + short_fn(m[3]) + ":" + expr;
    }
  static const std::regex asan_re("ERROR: AddressSanitizer: ([^ \n]+)");
  if (std::regex_search(text, m, asan_re))
    {
      excerpt = text.substr(static_cast<size_t>(m.position(0)), 2500);
      std::string key = "asan-" + std::string(m[1]) + fr_s;
      // use-after-free: the same access site can be reached with memory freed at different places (= different defects)
      const size_t fb = text.find("freed by thread");
      if (fb != std::string::npos)
        {
          const std::string tail = text.substr(fb, 6000);
          static const std::regex fr2("#[0-9]+ 0x[0-9a-f]+ in (.+?) (/[^ \n]+?):([0-9]+)");
          for (std::sregex_iterator it(tail.begin(), tail.end(), fr2), end; it != end; ++it)
            {
              const std::string path = (*it)[2];
              if (path.find("/src/") == std::string::npos || path.find("/harness/") != std::string::npos)
                continue;
              key += ":freed-in:" + short_fn((*it)[1]) + "@" + base_name(path);
              excerpt += "\n...\n" + tail.substr(0, 1200);
              break;
            }
        }
      return key;
    }
  static const std::regex ub_re("([^ \n:]+):([0-9]+):[0-9]+: runtime error: ([^\n]*)");
  if (std::regex_search(text, m, ub_re))
    {
      excerpt = text.substr(static_cast<size_t>(m.position(0)), 2500);
      std::string msg = m[3];
      // Arithmetic on absurd header values (signed overflow, float -> int conversion out of range) is undefined behaviour
      // but none of the events the property statement lists (out-of-bounds access, unbounded allocation, size mismatch,
      // crash instead of rejection): the release build carries on with a wrapped value and then accepts or rejects.  These
      // reports are counted, not reported; the same inputs run without UBSan in the "rel" stage.  (Division by zero stays
      // a violation: it kills the release build.)
      if (msg.find("signed integer overflow") != std::string::npos || msg.find("is outside the range of representable values") != std::string::npos)
        return std::string();
      msg = std::regex_replace(msg, std::regex("0x[0-9a-f]+"), "P");
      msg = std::regex_replace(msg, std::regex("[-+]?[0-9][0-9.e+x]*"), "N");
      msg = std::regex_replace(msg, std::regex("[^A-Za-z]+"), "_");
      return "ubsan-" + msg.substr(0, 60) + "@" + base_name(m[1]) + fr_s;
    }
  excerpt = text.substr(text.size() > 1500 ? text.size() - 1500 : 0);
  if (WIFSIGNALED(wstatus))
    {
      const int sig = WTERMSIG(wstatus);
      if (sig == SIGXCPU)
        return "hang:" + entry;
      const char* nm = sig == SIGSEGV ? "SIGSEGV" : sig == SIGABRT ? "SIGABRT" : sig == SIGFPE ? "SIGFPE" : sig == SIGBUS ? "SIGBUS" : sig == SIGILL ? "SIGILL" : "SIG";
      return std::string("signal-") + nm + (std::strcmp(nm, "SIG") ? "" : std::to_string(sig)) + ":" + entry;
    }
  return "exit-" + std::to_string(WIFEXITED(wstatus) ? WEXITSTATUS(wstatus) : -1) + ":" + entry;
}

// Per-input CPU budget.  Work that is linear in a count given by the header (e.g. 65535 time frames) is 20-50 times slower in
// the sanitizer build, so there the budget only bounds the cost of the campaign: exceeding it is counted, not reported.  The
// release build runs the same inputs (same seed and case numbers) with a generous budget; only there "does not finish" is a
// violation (hang:<entry>:<changed key>).
#if defined(__SANITIZE_ADDRESS__)
#  define C17_SANITIZED 1
#elif defined(__has_feature)
#  if __has_feature(address_sanitizer)
#    define C17_SANITIZED 1
#  endif
#endif
#ifdef C17_SANITIZED
constexpr bool budget_is_verdict = false;
constexpr int cpu_budget_s = 20;
#else
constexpr bool budget_is_verdict = true;
constexpr int cpu_budget_s = 120;
#endif

struct Isolator
{
  bool nofork = false;
  int errfd = -1;
  std::string errpath;
  std::string san_prefix;
  void init(Ctx& ctx)
  {
    if (errfd >= 0 || nofork)
      return;
    const char* nf = std::getenv("VERIF_C17_NOFORK");
    nofork = nf && *nf == '1';
    const char* cap = std::getenv("VERIF_C17_ALLOC_CAP_MIB");
    if (cap)
      g_alloc.cap_fail = static_cast<size_t>(std::atol(cap)) << 20;
    if (nofork)
      return;
    errpath = (ctx.tmpdir.empty() ? std::string("/var/tmp") : ctx.tmpdir) + "/c17_child_err." + std::to_string(::getpid());
    errfd = ::open(errpath.c_str(), O_RDWR | O_CREAT | O_TRUNC, 0600);
    for (const char* var : { "ASAN_OPTIONS", "UBSAN_OPTIONS" })
      {
        const char* o = std::getenv(var);
        if (!o)
          continue;
        std::string s(o);
        size_t p = s.find("log_path=");
        if (p != std::string::npos)
          {
            size_t e = s.find(':', p);
            san_prefix = s.substr(p + 9, e == std::string::npos ? std::string::npos : e - p - 9);
            break;
          }
      }
  }

  // entry: stable name of the entry point (no numbers); stage: heartbeat text
  Result run(Ctx& ctx, const std::string& entry, const std::string& stage, const std::function<void(Result&)>& fn)
  {
    init(ctx);
    ctx.heartbeat(stage);
    Result res;
    if (nofork)
      {
        fn(res);
        res.complete = true;
        return res;
      }
    int pfd[2];
    if (::pipe(pfd) != 0)
      throw std::runtime_error("pipe failed");
    std::fflush(nullptr);
    if (errfd >= 0)
      {
        if (::ftruncate(errfd, 0) != 0)
          {}
        ::lseek(errfd, 0, SEEK_SET);
      }
    const pid_t pid = ::fork();
    if (pid < 0)
      throw std::runtime_error("fork failed");
    if (pid == 0)
      {
        ::close(pfd[0]);
        if (errfd >= 0)
          ::dup2(errfd, 2);
        int dn = ::open("/dev/null", O_WRONLY);
        if (dn >= 0)
          ::dup2(dn, 1);
        struct rlimit rl;
        rl.rlim_cur = cpu_budget_s;
        rl.rlim_max = cpu_budget_s + 10;
        ::setrlimit(RLIMIT_CPU, &rl);
        rl.rlim_cur = rl.rlim_max = 0;
        ::setrlimit(RLIMIT_CORE, &rl);
        g_alloc.notify_fd = pfd[1];
        Result r;
        try
          {
            fn(r);
          }
        catch (const std::exception& e)
          {
            r.status = 0;
            r.how = std::string("exception-escaped:") + e.what();
          }
        catch (...)
          {
            r.status = 0;
            r.how = "exception-escaped:non-std";
          }
        g_alloc.notify_fd = -1;
        const std::string buf = encode(r);
        size_t off = 0;
        while (off < buf.size())
          {
            ssize_t w = ::write(pfd[1], buf.data() + off, buf.size() - off);
            if (w <= 0)
              break;
            off += static_cast<size_t>(w);
          }
        ::_exit(0);
      }
    ::close(pfd[1]);
    std::string buf;
    char tmp[8192];
    while (true)
      {
        ssize_t n = ::read(pfd[0], tmp, sizeof tmp);
        if (n > 0)
          buf.append(tmp, static_cast<size_t>(n));
        else if (n == 0 || errno != EINTR)
          break;
      }
    ::close(pfd[0]);
    int wstatus = 0;
    while (::waitpid(pid, &wstatus, 0) < 0 && errno == EINTR)
      {}
    decode(buf, res);
    const std::string sanlog = san_prefix.empty() ? std::string() : san_prefix + "." + std::to_string(pid);
    if (std::getenv("VERIF_C17_DEBUG"))
      std::fprintf(stderr, "[c17] %s | %s -> complete=%d status=%d how=%s sig=%s\n--- child stderr:\n%s\n", entry.c_str(), stage.c_str(), int(res.complete), res.status,
                   res.how.c_str(), clip(res.text, 200).c_str(), clip(errfd >= 0 ? slurp(errpath) : std::string(), 1500).c_str());
    if (res.complete && WIFEXITED(wstatus) && WEXITSTATUS(wstatus) == 0)
      {
        if (!sanlog.empty())
          ::unlink(sanlog.c_str());
        return res;
      }
    // the child died
    std::string text;
    if (!sanlog.empty())
      {
        text += slurp(sanlog);
        ::unlink(sanlog.c_str());
      }
    if (errfd >= 0)
      text += slurp(errpath);
    res.complete = false;
    if (res.refused_max > 0 && res.refused_max <= GiB)
      {
        // the harness' own allocation cap changed the behaviour of the library before the crash: not attributable
        res.status = 0;
        res.how = "crash-after-harness-allocation-cap";
        res.count("crash_after_harness_allocation_cap");
        return res;
      }
    if (res.refused_max > GiB)
      {
        res.status = 2; // the caller reports the unbounded allocation
        res.how = "died-after-unbounded-allocation";
        return res;
      }
    if (!budget_is_verdict && WIFSIGNALED(wstatus) && (WTERMSIG(wstatus) == SIGXCPU || WTERMSIG(wstatus) == SIGKILL)
        && text.find("ERROR: AddressSanitizer") == std::string::npos && text.find("runtime error:") == std::string::npos)
      {
        res.viols.clear();
        res.status = 0;
        res.how = "cpu-budget-exceeded";
        res.counts.clear();
        res.count("inputs_exceeding_cpu_budget_in_sanitizer_build_(judged_in_rel)");
        return res;
      }
    std::string excerpt;
    const std::string key = triage_dead_child(text, wstatus, entry, excerpt);
    if (key.empty())
      {
        res.viols.clear();
        res.status = 0;
        res.how = "stopped-by-arithmetic-overflow-report";
        res.counts.clear();
        res.count("children_stopped_by_arithmetic_overflow_report_(not_in_scope)");
        return res;
      }
    res.viols.clear();
    res.viol(key, excerpt);
    res.how = "died";
    return res;
  }
} g_iso;

} // namespace

// =====================================================================================================================
// registries
// =====================================================================================================================
namespace {
typedef RegisteredObjectBase* (*ReadFn)(std::istream*, const std::string&);
struct RegClass
{
  std::string root;
  std::string name;
  ReadFn read;
  std::string id() const { return root + "/" + name; }
};

template <class Root>
RegisteredObjectBase*
read_via_registry(std::istream* in, const std::string& name)
{
  Root* p = Root::read_registered_object(in, name);
  return p; // implicit up-cast (adjusts the pointer for multiple inheritance)
}

template <class Root>
void
add_root(const char* rootname, std::vector<RegClass>& v)
{
  std::ostringstream s;
  Root::list_registered_names(s);
  for (auto& n : split_lines(s.str()))
    {
      if (n.empty() || ref_norm(n) == "none")
        continue;
      RegClass c;
      c.root = rootname;
      c.name = n;
      c.read = &read_via_registry<Root>;
      v.push_back(c);
    }
}

const std::vector<RegClass>&
all_classes()
{
  static std::vector<RegClass> v;
  if (!v.empty())
    return v;
  typedef DiscretisedDensity<3, float> Img;
  add_root<ProjMatrixByBin>("ProjMatrixByBin", v);
  add_root<ForwardProjectorByBin>("ForwardProjectorByBin", v);
  add_root<BackProjectorByBin>("BackProjectorByBin", v);
  add_root<ProjectorByBinPair>("ProjectorByBinPair", v);
  add_root<BinNormalisation>("BinNormalisation", v);
  add_root<GeneralisedPrior<Img>>("GeneralisedPrior<DiscretisedDensity3f>", v);
  add_root<GeneralisedPrior<ParametricVoxelsOnCartesianGrid>>("GeneralisedPrior<Parametric>", v);
  add_root<GeneralisedObjectiveFunction<Img>>("GeneralisedObjectiveFunction<DiscretisedDensity3f>", v);
  add_root<GeneralisedObjectiveFunction<ParametricVoxelsOnCartesianGrid>>("GeneralisedObjectiveFunction<Parametric>", v);
  add_root<Reconstruction<Img>>("Reconstruction<DiscretisedDensity3f>", v);
  add_root<Reconstruction<ParametricVoxelsOnCartesianGrid>>("Reconstruction<Parametric>", v);
  add_root<DataProcessor<Img>>("DataProcessor<DiscretisedDensity3f>", v);
  add_root<DataProcessor<ParametricVoxelsOnCartesianGrid>>("DataProcessor<Parametric>", v);
  add_root<Shape3D>("Shape3D", v);
  add_root<OutputFileFormat<Img>>("OutputFileFormat<DiscretisedDensity3f>", v);
  add_root<OutputFileFormat<DynamicDiscretisedDensity>>("OutputFileFormat<Dynamic>", v);
  add_root<OutputFileFormat<ParametricVoxelsOnCartesianGrid>>("OutputFileFormat<Parametric>", v);
  add_root<ScatterSimulation>("ScatterSimulation", v);
  add_root<KineticModel>("KineticModel", v);
  add_root<ProjDataRebinning>("ProjDataRebinning", v);
  add_root<SinglesRates>("SinglesRates", v);
  add_root<SpatialTransformation>("SpatialTransformation", v);
  return v;
}

// =====================================================================================================================
// a KeyParser-derived test parser with keys of every public kind
// =====================================================================================================================
// plain state of the test parser: also used as the reference model in "keywords" mode
struct KPState
{
  int i_v = -7;
  unsigned int u_v = 7;
  long l_v = -70;
  unsigned long ul_v = 70;
  float f_v = 1.5f;
  double d_v = 2.5;
  bool b_v = false;
  std::string s_v = "default";
  std::vector<int> li_v;
  std::vector<double> ld_v;
  std::vector<std::string> ls_v;
  int n_items = 2;
  std::vector<int> vi_v;
  std::vector<double> vd_v;
  std::vector<float> vf_v;
  std::vector<std::string> vs_v;
  std::vector<unsigned long> vul_v;
  std::vector<std::vector<int>> vli_v;
  int choice = 0;
  std::string shape_name = "none";

  void resize_all()
  {
    vi_v.resize(n_items);
    vd_v.resize(n_items);
    vf_v.resize(n_items);
    vs_v.resize(n_items);
    vul_v.resize(n_items);
    vli_v.resize(n_items);
  }
  // vectors sized as announced
  bool sizes_consistent() const
  {
    const size_t n = static_cast<size_t>(n_items);
    return n_items >= 0 && vi_v.size() == n && vd_v.size() == n && vf_v.size() == n && vs_v.size() == n && vul_v.size() == n && vli_v.size() == n;
  }
  std::string state_of_fields() const
  {
    std::ostringstream s;
    s << std::setprecision(9) << "i=" << i_v << ";u=" << u_v << ";l=" << l_v << ";ul=" << ul_v << ";f=" << f_v << ";d=" << d_v << ";b=" << b_v
      << ";s=" << s_v << ";li=";
    for (int x : li_v)
      s << x << ",";
    s << ";ld=";
    for (double x : ld_v)
      s << x << ",";
    s << ";ls=";
    for (auto& x : ls_v)
      s << x << "|";
    s << ";n=" << n_items << ";vi=";
    for (int x : vi_v)
      s << x << ",";
    s << ";vd=";
    for (double x : vd_v)
      s << x << ",";
    s << ";vf=";
    for (float x : vf_v)
      s << x << ",";
    s << ";vs=";
    for (auto& x : vs_v)
      s << x << "|";
    s << ";vul=";
    for (auto x : vul_v)
      s << x << ",";
    s << ";vli=";
    for (auto& l : vli_v)
      {
        for (int x : l)
          s << x << ",";
        s << "/";
      }
    s << ";choice=" << choice << ";shape=" << shape_name;
    return s.str();
  }
};

class TestParser : public KeyParser, public KPState
{
public:
  ASCIIlist_type choices;
  Array<2, float> a2;
  BasicCoordinate<3, float> c3;
  shared_ptr<Shape3D> shape;

  TestParser()
  {
    choices.push_back("alpha");
    choices.push_back("beta gamma");
    choices.push_back("Delta");
    c3[1] = c3[2] = c3[3] = 0.f;
    resize_all();
    add_start_key("test parameters");
    add_stop_key("end test parameters");
    add_key("int value", &i_v);
    // (aliases registered with capitals and repeated white space: they have to be normalised like keywords)
    add_alias_key("int value", "Integer  Value", false);
    add_alias_key("Int_Value", "OLD int value", true);
    add_key("unsigned value", &u_v);
    add_key("long value", &l_v);
    add_key("unsigned long value", &ul_v);
    add_key("float value", &f_v);
    add_key("double value", &d_v);
    add_key("bool value", &b_v);
    add_key("string value", &s_v);
    add_key("list of ints", &li_v);
    add_key("list of doubles", &ld_v);
    add_key("list of strings", &ls_v);
    add_key("number of items", KeyArgument::INT, static_cast<KeywordProcessor>(&TestParser::read_num_items), &n_items);
    add_vectorised_key("item int", &vi_v);
    add_alias_key("item int", "Item_Integer", false);
    add_vectorised_key("item double", &vd_v);
    add_vectorised_key("item float", &vf_v);
    add_vectorised_key("item string", &vs_v);
    add_vectorised_key("item ulong", &vul_v);
    add_vectorised_key("item list", &vli_v);
    add_key("choice", &choice, &choices);
    add_key("array 2d", &a2);
    add_key("coordinate", &c3);
    add_parsing_key("shape type", &shape);
    ignore_key("ignored key");
  }
  void read_num_items()
  {
    set_variable();
    if (n_items < 0 || n_items > 4096)
      error("TestParser: number of items out of the supported range");
    resize_all();
  }
  std::string state()
  {
    shape_name = shape ? shape->get_registered_name() : std::string("none");
    return state_of_fields();
  }
};

const char* const KP_SEED_TEXT = "test parameters :=\n"
                                 "; a comment line\n"
                                 "int value := 12\n"
                                 "unsigned value := 34\n"
                                 "long value := -123456789\n"
                                 "unsigned long value := 4000000000\n"
                                 "float value := 0.25\n"
                                 "double value := 1.5e3\n"
                                 "bool value := 1\n"
                                 "string value := some text with spaces\n"
                                 "list of ints := {1, 2, 3}\n"
                                 "list of doubles := {0.5, 1.5}\n"
                                 "list of strings := {ab, cd ef, g}\n"
                                 "number of items := 3\n"
                                 "item int[1] := 10\n"
                                 "item integer[2] := 20\n"
                                 "item int[3] := 30\n"
                                 "item double[2] := 2.5\n"
                                 "item float[3] := 3.5\n"
                                 "item string[1] := first\n"
                                 "item string[3] := third item\n"
                                 "item ulong[2] := 99\n"
                                 "item list[1] := {4, 5}\n"
                                 "item list[3] := {6}\n"
                                 "choice := beta gamma\n"
                                 "array 2d := {{1,2},{3,4}}\n"
                                 "coordinate := {1, 2, 3}\n"
                                 "integer value := 13\n"
                                 "shape type := Ellipsoid\n"
                                 "Ellipsoid Parameters :=\n"
                                 "radius-x (in mm) := 3\n"
                                 "radius-y (in mm) := 4\n"
                                 "radius-z (in mm) := 5\n"
                                 "End :=\n"
                                 "ignored key := whatever\n"
                                 "end test parameters :=\n";

// =====================================================================================================================
// seed corpus: headers / parameter texts written by STIR itself (plus the hand-written KeyParser and Siemens texts)
// =====================================================================================================================
struct Seed
{
  std::string name;
  std::string family; // image dynimage pdfs spect siemens multi kp par
  std::string text;
  std::string ext;
  std::string data_file;       // as referenced in the header (relative to the seed directory)
  std::string trunc_data_file; // truncated copy of the data file
  int cls = -1;                // par: index in all_classes()
};

struct Corpus
{
  std::string dir;
  std::vector<Seed> seeds;
  std::map<std::string, std::vector<int>> by_family;
  std::map<int, std::string> par_text; // class index -> parameter_info of the default object ("" = not constructible)
  bool built = false;
} g_corpus;

const char* const SIEMENS_SEED_TEXT = "!INTERFILE:=\n"
                                      "%comment:=SMS-MI sinogram common attributes\n"
                                      "!originating system:=2008\n"
                                      "%SMS-MI header name space:=sinogram subheader\n"
                                      "%SMS-MI version number:=3.4\n"
                                      "!GENERAL DATA:=\n"
                                      "name of data file:=siemens.s\n"
                                      "!GENERAL IMAGE DATA:=\n"
                                      "!type of data:=PET\n"
                                      "%study date (yyyy:mm:dd):=2014:11:13\n"
                                      "%study time (hh:mm:ss GMT+00:00):=17:50:12\n"
                                      "isotope name:=F-18\n"
                                      "isotope gamma halflife (sec):=6586.2\n"
                                      "isotope branching factor:=0.97\n"
                                      "radiopharmaceutical:=FDG\n"
                                      "relative time of tracer injection (sec):=3012\n"
                                      "tracer activity at time of injection (Bq):=3.7e+08\n"
                                      "injected volume (ml):=0\n"
                                      "image data byte order:=LITTLEENDIAN\n"
                                      "%patient orientation:=HFS\n"
                                      "!PET data type:=emission\n"
                                      "data format:=sinogram\n"
                                      "number format:=signed integer\n"
                                      "!number of bytes per pixel:=2\n"
                                      "number of dimensions:=3\n"
                                      "matrix axis label[1]:=sinogram projections\n"
                                      "matrix axis label[2]:=sinogram views\n"
                                      "matrix axis label[3]:=number of sinograms\n"
                                      "matrix size[1]:=344\n"
                                      "matrix size[2]:=252\n"
                                      "matrix size[3]:=837\n"
                                      "scale factor (mm/pixel)[1]:=2.08626\n"
                                      "scale factor (degree/pixel)[2]:=0.714286\n"
                                      "scale factor (mm/pixel)[3]:=2.03125\n"
                                      "horizontal bed translation:=stepped\n"
                                      "start horizontal bed position (mm):=0\n"
                                      "end horizontal bed position (mm):=0\n"
                                      "start vertical bed position (mm):=0\n"
                                      "%axial compression:=11\n"
                                      "%maximum ring difference:=60\n"
                                      "number of rings:=64\n"
                                      "%number of segments:=11\n"
                                      "%segment table:={127,115,115,93,93,71,71,49,49,27,27}\n"
                                      "%number of TOF time bins:=1\n"
                                      "applied corrections:={none}\n"
                                      "method of attenuation correction:=measured\n"
                                      "number of scan data types:=1\n"
                                      "scan data type description[1]:=prompts\n"
                                      "data offset in bytes[1]:=0\n"
                                      "number of time frames:=1\n"
                                      "!IMAGE DATA DESCRIPTION:=\n"
                                      "%total number of sinograms:=837\n"
                                      "image duration (sec):=300\n"
                                      "image relative start time (sec):=0\n"
                                      "total prompts:=1000\n"
                                      "%total randoms:=10\n"
                                      "%total net trues:=990\n"
                                      "%compression:=off\n"
                                      "%number of buckets:=2\n"
                                      "%bucket singles rate[1]:=100\n"
                                      "%bucket singles rate[2]:=200\n"
                                      "!END OF INTERFILE:=\n";

const char* const SPECT_SEED_TEXT = "!INTERFILE  :=\n"
                                    "!imaging modality := nucmed\n"
                                    "name of data file := spect_hand.s\n"
                                    "originating system := verif_spect\n"
                                    "!version of keys := 3.3\n"
                                    "!GENERAL DATA :=\n"
                                    "!GENERAL IMAGE DATA :=\n"
                                    "!type of data := Tomographic\n"
                                    "imagedata byte order := LITTLEENDIAN\n"
                                    "!SPECT STUDY (General) :=\n"
                                    "!number format := float\n"
                                    "!number of bytes per pixel := 4\n"
                                    "!number of projections := 8\n"
                                    "!extent of rotation := 360\n"
                                    "process status := acquired\n"
                                    "!SPECT STUDY (acquired data):=\n"
                                    "!direction of rotation := CW\n"
                                    "start angle := 180\n"
                                    "orbit := Non-circular\n"
                                    "Radii := {150, 151, 152, 153, 154, 155, 156, 157}\n"
                                    "!matrix size [1] := 6\n"
                                    "!scaling factor (mm/pixel) [1] := 4\n"
                                    "!matrix size [2] := 3\n"
                                    "!scaling factor (mm/pixel) [2] := 4\n"
                                    "!END OF INTERFILE :=\n";

void
add_seed(const Seed& s)
{
  g_corpus.by_family[s.family].push_back(static_cast<int>(g_corpus.seeds.size()));
  g_corpus.seeds.push_back(s);
}

void
make_truncated_copy(const std::string& dir, const std::string& data, const std::string& trunc)
{
  const std::string d = slurp(dir + "/" + data);
  spit(dir + "/" + trunc, d.substr(0, d.size() / 2));
}

shared_ptr<ExamInfo>
make_exam(bool spect, int frames)
{
  shared_ptr<ExamInfo> ei(new ExamInfo(spect ? ImagingModality::NM : ImagingModality::PT));
  ei->originating_system = "verif_gen";
  ei->start_time_in_secs_since_1970 = 1.5e9;
  std::vector<double> st, du;
  for (int f = 0; f < frames; ++f)
    {
      st.push_back(10. + 100. * f);
      du.push_back(90.);
    }
  ei->set_time_frame_definitions(TimeFrameDefinitions(st, du));
  if (!spect)
    {
      ei->set_low_energy_thres(425.f);
      ei->set_high_energy_thres(650.f);
    }
  ei->set_calibration_factor(2.5f);
  return ei;
}

void
build_corpus(Ctx& ctx)
{
  if (g_corpus.built)
    return;
  g_corpus.built = true;
  g_corpus.dir = (ctx.tmpdir.empty() ? std::string("/var/tmp") : ctx.tmpdir) + "/c17_seeds_" + std::to_string(::getpid());
  ::mkdir(g_corpus.dir.c_str(), 0700);
  const std::string& D = g_corpus.dir;
  vf::Rng rng(12345);
  // ---- images
  {
    vg::ImageSpec is;
    is.nx = 6;
    is.ny = 5;
    is.nz = 4;
    is.vx = 2.5f;
    is.vy = 2.5f;
    is.vz = 3.f;
    is.oz = 1.5f;
    shared_ptr<ExamInfo> ei = make_exam(false, 1);
    auto tmpl = vg::make_image(is);
    VoxelsOnCartesianGrid<float> im(ei, tmpl->get_index_range(), tmpl->get_origin(), tmpl->get_grid_spacing());
    vg::fill_random(im, rng, 0.5, 100.);
    {
      InterfileOutputFileFormat f;
      f.set_type_of_numbers(NumericType(NumericType::FLOAT));
      std::string fn = D + "/img_float";
      if (f.write_to_file(fn, im) != Succeeded::yes)
        throw std::runtime_error("cannot write image seed");
      Seed s;
      s.name = "image-float";
      s.family = "image";
      s.text = slurp(D + "/img_float.hv");
      s.ext = ".hv";
      s.data_file = "img_float.v";
      s.trunc_data_file = "img_float_trunc.v";
      make_truncated_copy(D, s.data_file, s.trunc_data_file);
      add_seed(s);
    }
    {
      InterfileOutputFileFormat f;
      f.set_type_of_numbers(NumericType(NumericType::SHORT));
      std::string fn = D + "/img_short";
      if (f.write_to_file(fn, im) != Succeeded::yes)
        throw std::runtime_error("cannot write image seed");
      Seed s;
      s.name = "image-short";
      s.family = "image";
      s.text = slurp(D + "/img_short.hv");
      s.ext = ".hv";
      s.data_file = "img_short.v";
      s.trunc_data_file = "img_short_trunc.v";
      make_truncated_copy(D, s.data_file, s.trunc_data_file);
      add_seed(s);
    }
    // dynamic image, 2 frames
    {
      shared_ptr<ExamInfo> eid = make_exam(false, 2);
      shared_ptr<Scanner> sc(new Scanner(Scanner::E931));
      shared_ptr<DiscretisedDensity<3, float>> t(
          new VoxelsOnCartesianGrid<float>(eid, tmpl->get_index_range(), tmpl->get_origin(), tmpl->get_grid_spacing()));
      DynamicDiscretisedDensity dyn(eid->get_time_frame_definitions(), eid->start_time_in_secs_since_1970, sc, t);
      for (int f = 1; f <= 2; ++f)
        {
          ExamInfo e1(*eid);
          e1.set_time_frame_definitions(TimeFrameDefinitions(eid->get_time_frame_definitions(), f));
          VoxelsOnCartesianGrid<float> fr(shared_ptr<const ExamInfo>(new ExamInfo(e1)), tmpl->get_index_range(), tmpl->get_origin(),
                                          tmpl->get_grid_spacing());
          vg::fill_random(fr, rng, 0.5, 100.);
          dyn.set_density(fr, f);
        }
      InterfileDynamicDiscretisedDensityOutputFileFormat f;
      f.set_type_of_numbers(NumericType(NumericType::FLOAT));
      std::string fn = D + "/dyn_float";
      if (f.write_to_file(fn, dyn) != Succeeded::yes)
        throw std::runtime_error("cannot write dynamic image seed");
      Seed s;
      s.name = "dynamic-image-float";
      s.family = "dynimage";
      s.text = slurp(D + "/dyn_float.hv");
      s.ext = ".hv";
      s.data_file = "dyn_float.v";
      s.trunc_data_file = "dyn_float_trunc.v";
      make_truncated_copy(D, s.data_file, s.trunc_data_file);
      add_seed(s);
    }
  }
  // ---- projection data
  auto write_pd = [&](const std::string& base, const std::string& name, const std::string& family, shared_ptr<ExamInfo> ei,
                      shared_ptr<ProjDataInfo> pdi, NumericType t) {
    {
      ProjDataInterfile pd(ei, pdi, D + "/" + base + ".hs", std::ios::in | std::ios::out | std::ios::trunc,
                           ProjData::standard_segment_sequence(*pdi), ProjDataFromStream::Segment_View_AxialPos_TangPos, t,
                           ByteOrder::native, 1.f);
      pd.fill(3.f);
    }
    Seed s;
    s.name = name;
    s.family = family;
    s.text = slurp(D + "/" + base + ".hs");
    s.ext = ".hs";
    s.data_file = base + ".s";
    s.trunc_data_file = base + "_trunc.s";
    make_truncated_copy(D, s.data_file, s.trunc_data_file);
    add_seed(s);
  };
  {
    vg::ScannerSpec ss;
    ss.ndet = 16;
    ss.nrings = 3;
    ss.radius = 120.f;
    ss.ring_spacing = 5.f;
    ss.bin_size = 3.f;
    auto sc = vg::make_scanner(ss);
    shared_ptr<ProjDataInfo> pdi(ProjDataInfo::construct_proj_data_info(sc, 1, 1, 8, 9, false, 0));
    write_pd("pd_user", "projdata-userdefined-3segments", "pdfs", make_exam(false, 1), pdi, NumericType(NumericType::FLOAT));
    shared_ptr<ProjDataInfo> pdia(ProjDataInfo::construct_proj_data_info(sc, 3, 2, 8, 7, true, 0));
    write_pd("pd_arc", "projdata-userdefined-arccorrected-span3-short", "pdfs", make_exam(false, 1), pdia, NumericType(NumericType::SHORT));
    vg::ScannerSpec st = ss;
    st.tof_bins = 5;
    st.tof_size = 400.f;
    st.tof_res = 600.f;
    auto sct = vg::make_scanner(st);
    shared_ptr<ProjDataInfo> pdit(ProjDataInfo::construct_proj_data_info(sct, 1, 1, 8, 9, false, 1));
    write_pd("pd_tof", "projdata-userdefined-tof", "pdfs", make_exam(false, 1), pdit, NumericType(NumericType::FLOAT));
    shared_ptr<Scanner> sce(new Scanner(Scanner::E931));
    shared_ptr<ProjDataInfo> pdie(ProjDataInfo::construct_proj_data_info(sce, 1, 0, 16, 24, false, 0));
    shared_ptr<ExamInfo> eie = make_exam(false, 1);
    eie->originating_system = sce->get_name();
    write_pd("pd_e931", "projdata-ECAT931", "pdfs", eie, pdie, NumericType(NumericType::FLOAT));
    // SPECT, written by STIR if it can
    bool spect_written = false;
    try
      {
        shared_ptr<ProjDataInfo> pdis(ProjDataInfo::construct_proj_data_info(sc, 1, 0, 8, 9, true, 0));
        write_pd("pd_spect", "projdata-spect", "spect", make_exam(true, 1), pdis, NumericType(NumericType::FLOAT));
        spect_written = true;
      }
    catch (const std::exception&)
      {}
    (void)spect_written;
    {
      Seed s;
      s.name = "projdata-spect-handwritten-noncircular";
      s.family = "spect";
      s.text = SPECT_SEED_TEXT;
      s.ext = ".hs";
      s.data_file = "spect_hand.s";
      s.trunc_data_file = "spect_hand_trunc.s";
      spit(D + "/" + s.data_file, std::string(8 * 6 * 3 * 4, '\1'));
      make_truncated_copy(D, s.data_file, s.trunc_data_file);
      add_seed(s);
    }
    {
      Seed s;
      s.name = "projdata-siemens-mMR-handwritten";
      s.family = "siemens";
      s.text = SIEMENS_SEED_TEXT;
      s.ext = ".hs";
      s.data_file = "siemens.s";
      s.trunc_data_file = "siemens_trunc.s";
      spit(D + "/" + s.data_file, std::string(4096, '\1'));
      make_truncated_copy(D, s.data_file, s.trunc_data_file);
      add_seed(s);
    }
  }
  // ---- Multi header
  {
    std::vector<std::string> names;
    names.push_back(D + "/pd_user.hs");
    names.push_back(D + "/pd_arc.hs");
    MultipleDataSetHeader::write_header(D + "/multi.txt", names);
    Seed s;
    s.name = "multi-2-projdata";
    s.family = "multi";
    s.text = slurp(D + "/multi.txt");
    s.ext = ".txt";
    add_seed(s);
  }
  // ---- KeyParser text
  {
    Seed s;
    s.name = "keyparser-handwritten";
    s.family = "kp";
    s.text = KP_SEED_TEXT;
    s.ext = ".par";
    add_seed(s);
  }
}
} // namespace

// =====================================================================================================================
// (a) registry helpers: default object, print, re-parse  (all of this runs inside an isolated child)
// =====================================================================================================================
namespace {

// learn the start keyword of a registered class: parsing an empty stream fails with the warning
//   KeyParser error: required first keyword "xxx" not found
std::string
find_start_keyword(const RegClass& c)
{
  CaptureWriter cap;
  TextWriterHandle h;
  h.set_warning_channel(&cap);
  std::istringstream empty("");
  RegisteredObjectBase* p = nullptr;
  try
    {
      p = c.read(&empty, c.name);
    }
  catch (...)
    {}
  static vg::NullWriter nw;
  h.set_warning_channel(&nw);
  delete p;
  const std::string pat = "required first keyword \"";
  size_t b = cap.text.find(pat);
  if (b == std::string::npos)
    return std::string();
  b += pat.size();
  size_t e = cap.text.find("\" not found", b);
  if (e == std::string::npos)
    return std::string();
  return cap.text.substr(b, e - b);
}

// Values for classes whose bare defaults are rejected by their own post_processing although they need no external data
// (tried only after the bare start keyword was rejected).
const std::map<std::string, std::string>&
minimal_values()
{
  static const std::string matrix = "Ray tracing matrix parameters :=\nEnd Ray tracing matrix parameters :=\n";
  static const std::string fwd = "Forward Projector Using Matrix Parameters :=\nmatrix type := Ray Tracing\n" + matrix + "End Forward Projector Using Matrix Parameters :=\n";
  static const std::string bck = "Back Projector Using Matrix Parameters :=\nmatrix type := Ray Tracing\n" + matrix + "End Back Projector Using Matrix Parameters :=\n";
  static const std::map<std::string, std::string> m = {
    { "Shape3D/Ellipsoid", "radius-x (in mm) := 3\nradius-y (in mm) := 4\nradius-z (in mm) := 5\n" },
    { "Shape3D/Ellipsoidal Cylinder", "radius-x (in mm) := 3\nradius-y (in mm) := 4\nlength-z (in mm) := 5\n" },
    { "Shape3D/Box3D", "length-x (in mm) := 3\nlength-y (in mm) := 4\nlength-z (in mm) := 5\n" },
    { "ForwardProjectorByBin/Matrix", "matrix type := Ray Tracing\n" + matrix },
    { "BackProjectorByBin/Matrix", "matrix type := Ray Tracing\n" + matrix },
    { "ProjectorByBinPair/Matrix", "Matrix type := Ray Tracing\n" + matrix },
    { "ProjectorByBinPair/Separate Projectors", "Forward projector type := Matrix\n" + fwd + "Back projector type := Matrix\n" + bck },
    { "ForwardProjectorByBin/Pre Smoothing", "Original Forward projector type := Matrix\n" + fwd + "filter type := None\n" },
    { "BackProjectorByBin/Post Smoothing", "Original Back projector type := Matrix\n" + bck + "filter type := None\n" },
  };
  return m;
}

// returns "" and sets why if the class cannot be constructed/printed from defaults
std::string
default_parameter_info(const RegClass& c, std::string& why)
{
  const std::string kw = find_start_keyword(c);
  if (kw.empty())
    {
      why = "no-start-keyword-found";
      return std::string();
    }
  std::string first_text = kw + " :=\n";
  {
    // the bare start keyword is always parsed (it is the smallest parameter text); if it is rejected, try the minimal values
    std::istringstream in0(first_text);
    std::unique_ptr<RegisteredObjectBase> o0;
    try
      {
        o0.reset(c.read(&in0, c.name));
      }
    catch (const std::exception&)
      {}
    auto mv = minimal_values().find(c.id());
    if (!o0 && mv != minimal_values().end())
      first_text += mv->second;
  }
  std::istringstream in(first_text);
  std::unique_ptr<RegisteredObjectBase> obj;
  try
    {
      obj.reset(c.read(&in, c.name));
    }
  catch (const std::exception& e)
    {
      why = "default-construction-throws";
      return std::string();
    }
  if (!obj)
    {
      why = "default-values-rejected-by-post-processing";
      return std::string();
    }
  try
    {
      return obj->parameter_info();
    }
  catch (const std::exception&)
    {
      why = "parameter-info-throws";
      return std::string();
    }
}

bool
is_number_token(const std::string& v, bool& is_int)
{
  if (v.empty())
    return false;
  char* end = nullptr;
  std::strtod(v.c_str(), &end);
  if (end == v.c_str() || *end != '\0')
    return false;
  is_int = v.find_first_of(".eEnNiI") == std::string::npos;
  return true;
}

// first differing line of two texts; jitter=true if all differences are numeric tokens agreeing to 1e-5 relative
std::string
text_diff(const std::string& a, const std::string& b, bool& only_numeric_jitter)
{
  auto la = split_lines(a), lb = split_lines(b);
  only_numeric_jitter = la.size() == lb.size();
  std::string first;
  for (size_t i = 0; i < std::max(la.size(), lb.size()); ++i)
    {
      const std::string x = i < la.size() ? la[i] : "<missing>", y = i < lb.size() ? lb[i] : "<missing>";
      if (x == y)
        continue;
      if (first.empty())
        {
          first = "line " + std::to_string(i + 1) + ": first print '" + clip(x, 300) + "' vs second print '" + clip(y, 300) + "'\n--- lines around it, first print | second print:";
          for (size_t k = (i >= 6 ? i - 6 : 0); k < std::min(std::max(la.size(), lb.size()), i + 5); ++k)
            first += "\n" + std::to_string(k + 1) + ": " + clip(k < la.size() ? la[k] : "<missing>", 120) + "   |   " + clip(k < lb.size() ? lb[k] : "<missing>", 120);
        }
      RefLine rx = ref_split(x), ry = ref_split(y);
      bool ix, iy;
      if (rx.is_assignment && ry.is_assignment && rx.kw == ry.kw && is_number_token(rx.value, ix) && is_number_token(ry.value, iy))
        {
          const double vx = std::atof(rx.value.c_str()), vy = std::atof(ry.value.c_str());
          if (std::fabs(vx - vy) <= 1e-5 * std::max(std::fabs(vx), std::fabs(vy)))
            continue;
        }
      only_numeric_jitter = false;
    }
  return first;
}

// print -> parse -> print on `text` (which an object printed for itself); reports under tag
void
check_fixed_point(Result& r, const RegClass& c, const std::string& text, const std::string& tag)
{
  std::istringstream in(text);
  std::unique_ptr<RegisteredObjectBase> obj2;
  try
    {
      obj2.reset(c.read(&in, c.name));
    }
  catch (const std::exception& e)
    {
      r.viol("roundtrip-rejected:" + keyify(c.id()),
             tag + ": the text printed by the object is rejected with an exception when parsed again: " + clip(e.what(), 300) + "\n--- text:\n" + clip(text));
      return;
    }
  if (!obj2)
    {
      r.viol("roundtrip-rejected:" + keyify(c.id()), tag + ": the text printed by the object is rejected when parsed again\n--- text:\n" + clip(text));
      return;
    }
  std::string t2;
  try
    {
      t2 = obj2->parameter_info();
    }
  catch (const std::exception& e)
    {
      r.viol("roundtrip-print-throws:" + keyify(c.id()), tag + ": " + clip(e.what(), 300));
      return;
    }
  bool jitter = false;
  if (t2 == text)
    r.count("roundtrip_texts_identical");
  else
    {
      const std::string d = text_diff(text, t2, jitter);
      if (!jitter)
        {
          r.viol("roundtrip-text-differs:" + keyify(c.id()), tag + ": " + d + "\n--- first print:\n" + clip(text, 1200));
          return;
        }
      r.count("roundtrip_numeric_jitter_only");
    }
  // the same text with DOS/Windows line ends (documented as allowed, also on continued lines) must give the same object
  {
    std::string dos;
    bool has_cont = false;
    for (size_t i = 0; i < text.size(); ++i)
      {
        if (text[i] == '\n')
          {
            if (i > 0 && text[i - 1] == '\\')
              has_cont = true;
            dos += '\r';
          }
        dos += text[i];
      }
    std::istringstream ind(dos);
    std::unique_ptr<RegisteredObjectBase> obj3;
    std::string t3;
    try
      {
        obj3.reset(c.read(&ind, c.name));
        if (obj3)
          t3 = obj3->parameter_info();
      }
    catch (const std::exception& e)
      {
        obj3.reset();
        t3 = std::string("exception: ") + e.what();
      }
    r.count("roundtrip_dos_line_end_texts_parsed");
    if (has_cont)
      r.count("roundtrip_dos_line_end_texts_with_continued_lines");
    if (!obj3)
      r.viol("roundtrip-dos-line-ends-rejected:" + keyify(c.id()),
             tag + ": the printed text is accepted, the same text with CR LF line ends is not (" + clip(t3, 200) + ")\n--- text:\n" + clip(text));
    else if (t3 != t2)
      {
        bool j3 = false;
        const std::string d3 = text_diff(t2, t3, j3);
        if (!j3)
          r.viol("roundtrip-dos-line-ends-change-the-object:" + keyify(c.id()),
                 tag + ": parsing the printed text with CR LF line ends gives another object: " + d3 + "\n--- text:\n" + clip(text, 1200));
      }
  }
}

// documented-equivalent respelling of a keyword: case changes, white-space runs from {space, tab, _, !}
std::string
decorate_keyword(const std::string& kw, vf::Rng& rng)
{
  static const char wsc[] = { ' ', '_', '!', '\t' };
  std::string o;
  const int lead = static_cast<int>(rng.range(0, 2));
  for (int i = 0; i < lead; ++i)
    o += wsc[rng.range(0, 3)];
  size_t b = 0, e = kw.size();
  while (b < e && ref_is_ws(kw[b]))
    ++b;
  while (e > b && ref_is_ws(kw[e - 1]))
    --e;
  size_t i = b;
  while (i < e)
    {
      if (ref_is_ws(kw[i]))
        {
          while (i < e && ref_is_ws(kw[i]))
            ++i;
          const int n = static_cast<int>(rng.range(1, 3));
          for (int k = 0; k < n; ++k)
            o += wsc[rng.range(0, 3)];
        }
      else
        {
          char c = kw[i++];
          if (rng.coin(0.3))
            {
              if (c >= 'a' && c <= 'z')
                c = static_cast<char>(c - 'a' + 'A');
              else if (c >= 'A' && c <= 'Z')
                c = static_cast<char>(c - 'A' + 'a');
            }
          o += c;
        }
    }
  const int trail = static_cast<int>(rng.range(0, 2));
  for (int k = 0; k < trail; ++k)
    o += wsc[rng.range(0, 3)];
  return o;
}

// respell the keyword part of every assignment line
std::string
decorate_text(const std::string& text, vf::Rng& rng)
{
  auto lines = split_lines(text);
  for (auto& l : lines)
    {
      RefLine r = ref_split(l);
      if (!r.is_assignment || r.kw.empty())
        continue;
      l = decorate_keyword(r.kw_raw, rng) + l.substr(r.kw_end);
    }
  return join_lines(lines);
}

// =====================================================================================================================
// (b) entry points with consistency checks (run inside an isolated child)
// =====================================================================================================================
struct Input
{
  const Seed* seed = nullptr;
  std::string text;       // the (mutated) header / parameter text
  std::string path;       // file it was written to (in the seed directory), for the file based entry points
  std::string kinds;      // mutation kinds, '+' separated
  std::string culprit;    // normalised keyword of the line whose value/index was changed (if a single one)
  bool same_as_seed = false; // the mutation is a documented-equivalent respelling: result must equal the seed's
  int entry_variant = 0;
  int cls = -1;
};

void
finish_alloc(Result& r, const std::string& entry, const Input& in)
{
  r.max_alloc = std::max(r.max_alloc, g_alloc.max_req);
  r.refused_max = std::max(r.refused_max, g_alloc.refused_max);
  r.runaway = r.runaway || g_alloc.runaway;
}

// the class whose keyword table parses this family of inputs (names the site of allocation findings)
std::string
parser_class(const Seed& seed)
{
  const std::string& f = seed.family;
  if (f == "image" || f == "dynimage")
    return "InterfileImageHeader";
  if (f == "pdfs")
    return "InterfilePDFSHeader";
  if (f == "spect")
    return "InterfilePDFSHeaderSPECT";
  if (f == "siemens")
    return "InterfilePDFSHeaderSiemens";
  if (f == "multi")
    return "MultipleDataSetHeader";
  if (f == "kp")
    return "TestParser";
  return keyify(seed.name);
}

void
report_alloc(Result& r, const std::string& entry, const Input& in)
{
  if (r.refused_max > GiB)
    {
      r.viols.clear();
      // two classes: a single request sized by a count in the input (keyed by the parser class), and a buffer that kept growing
      // (>= 8 successive growing requests from 1 MiB to beyond 1 GiB: a loop that does not terminate), keyed apart so that the
      // listed count-keyword findings cannot hide it
      r.viol((r.runaway ? "runaway-allocation-growth:" + parser_class(*in.seed) + ":" + (in.culprit.empty() ? std::string("no-single-key") : keyify(in.culprit))
                        : "unbounded-allocation:" + parser_class(*in.seed)),
             "keyword changed: '" + (in.culprit.empty() ? std::string("(no single keyword)") : in.culprit) + "'; a single allocation of " + std::to_string(r.refused_max) + " bytes was requested while parsing an input of "
                 + std::to_string(in.text.size()) + " bytes through " + entry + " (mutation " + in.kinds + ")\n--- input:\n" + clip(in.text, 3000));
    }
  else if (r.refused_max > 0)
    {
      r.count("alloc_refused_by_harness_cap_below_1GiB");
      if (r.status == 1)
        r.status = 0;
    }
}

// known length of the data file the header refers to, -1 if it cannot be determined soundly
long
referenced_data_len(const RefScan& sc, const Input& in)
{
  if (!sc.simple)
    return -1;
  auto names = sc.values("name of data file");
  if (names.empty())
    return -1;
  for (auto& n : names)
    if (n != names[0])
      return -1;
  if (names[0] != in.seed->data_file && names[0] != in.seed->trunc_data_file)
    return -1;
  return file_len(g_corpus.dir + "/" + names[0]);
}

// smallest "number of bytes per pixel" the header could mean, 0 if unknown
long
min_bytes_per_pixel(const RefScan& sc)
{
  for (auto& f : sc.values("number format"))
    {
      const std::string n = ref_norm(f);
      if (n != "float" && n != "signed integer" && n != "unsigned integer")
        return 0;
    }
  long mn = 0;
  for (auto& v : sc.values("number of bytes per pixel"))
    {
      char* end = nullptr;
      long x = std::strtol(v.c_str(), &end, 10);
      if (end == v.c_str() || x <= 0)
        continue;
      if (mn == 0 || x < mn)
        mn = x;
    }
  return mn;
}

std::string
image_signature(const VoxelsOnCartesianGrid<float>& im)
{
  BasicCoordinate<3, int> mn, mx;
  std::ostringstream s;
  if (!im.get_regular_range(mn, mx))
    return "irregular";
  s << mn[1] << ":" << mx[1] << "," << mn[2] << ":" << mx[2] << "," << mn[3] << ":" << mx[3] << ";" << im.get_grid_spacing()[1] << ","
    << im.get_grid_spacing()[2] << "," << im.get_grid_spacing()[3] << ";" << im.get_origin()[1] << "," << im.get_origin()[2] << ","
    << im.get_origin()[3];
  return s.str();
}

void
check_image(Result& r, const VoxelsOnCartesianGrid<float>& im, const Input& in, const std::string& entry, int frames_read)
{
  BasicCoordinate<3, int> mn, mx;
  if (!im.get_regular_range(mn, mx))
    {
      r.viol("accepted-image-with-irregular-range:" + entry, clip(in.text));
      return;
    }
  double voxels = 1;
  for (int d = 1; d <= 3; ++d)
    {
      const long len = static_cast<long>(mx[d]) - mn[d] + 1;
      if (len < 1)
        {
          r.viol("accepted-image-with-empty-dimension:" + entry, "dimension " + std::to_string(d) + " has length " + std::to_string(len) + "\n" + clip(in.text));
          return;
        }
      voxels *= static_cast<double>(len);
    }
  RefScan sc(in.text);
  const long L = referenced_data_len(sc, in);
  const long bpp = min_bytes_per_pixel(sc);
  if (L >= 0 && bpp > 0)
    {
      r.count("data_length_checks");
      // (a 'data offset in bytes' key is only honoured after the 'type of data' line and if its value parses; the length
      // check therefore uses the lower bound without offset)
      const double max_off = 0;
      if (max_off + voxels * static_cast<double>(bpp) > static_cast<double>(L))
        {
          r.viol("short-data-file-accepted:" + entry,
                 "image of " + std::to_string(static_cast<long>(voxels)) + " voxels x >= " + std::to_string(bpp) + " bytes at offset " + std::to_string(static_cast<long>(max_off))
                     + " accepted from a data file of " + std::to_string(L) + " bytes (mutation " + in.kinds + ")\n--- header:\n" + clip(in.text, 3000));
          return;
        }
    }
  else
    r.count("data_length_check_not_applicable");
  r.status = 1;
}

std::string
pdi_signature(const ProjData& pd)
{
  return pd.get_proj_data_info_sptr()->parameter_info();
}

void
check_projdata(Result& r, ProjData& pd, const Input& in, const std::string& entry)
{
  const ProjDataInfo& pdi = *pd.get_proj_data_info_sptr();
  if (pdi.get_min_segment_num() > pdi.get_max_segment_num() || pdi.get_min_view_num() > pdi.get_max_view_num()
      || pdi.get_min_tangential_pos_num() > pdi.get_max_tangential_pos_num() || pdi.get_min_tof_pos_num() > pdi.get_max_tof_pos_num())
    {
      // key: entry point, which range is empty, and - the one input class known so far (known_findings.json) - whether the header
      // assigns 'matrix size [1]' more than once (a first, damaged line that is still taken as that keyword, then a well-formed one)
      const char* which = pdi.get_min_segment_num() > pdi.get_max_segment_num()                 ? "segments"
                          : pdi.get_min_view_num() > pdi.get_max_view_num()                     ? "views"
                          : pdi.get_min_tangential_pos_num() > pdi.get_max_tangential_pos_num() ? "tangential"
                                                                                                : "tof";
      int ms1 = 0;
      for (auto& l : split_lines(in.text))
        {
          std::string t;
          for (unsigned char ch : l)
            if (ch != ' ' && ch != '\t' && ch != '!' && ch != '_')
              t += static_cast<char>(std::tolower(ch));
          if (t.compare(0, 13, "matrixsize[1]") == 0)
            ++ms1;
        }
      r.viol("accepted-projdata-with-empty-range:" + entry + ":" + which + (ms1 > 1 ? ":matrix-size-1-assigned-more-than-once" : ""),
             vf::fmt("segments %d..%d views %d..%d tangential %d..%d tof %d..%d", pdi.get_min_segment_num(), pdi.get_max_segment_num(),
                     pdi.get_min_view_num(), pdi.get_max_view_num(), pdi.get_min_tangential_pos_num(), pdi.get_max_tangential_pos_num(),
                     pdi.get_min_tof_pos_num(), pdi.get_max_tof_pos_num())
                 + "\n" + clip(in.text));
      return;
    }
  double bins = 0;
  for (int s = pdi.get_min_segment_num(); s <= pdi.get_max_segment_num(); ++s)
    {
      if (pdi.get_num_axial_poss(s) < 1)
        {
          r.viol("accepted-projdata-with-empty-range:" + entry, "segment " + std::to_string(s) + " has " + std::to_string(pdi.get_num_axial_poss(s)) + " axial positions\n" + clip(in.text));
          return;
        }
      bins += static_cast<double>(pdi.get_num_axial_poss(s)) * pdi.get_num_views() * pdi.get_num_tangential_poss();
    }
  bins *= pdi.get_num_tof_poss();
  ProjDataFromStream* pdfs = dynamic_cast<ProjDataFromStream*>(&pd);
  if (!pdfs)
    {
      r.status = 1;
      return;
    }
  if (static_cast<int>(pdfs->get_segment_sequence_in_stream().size()) != pdi.get_num_segments())
    {
      r.viol("accepted-projdata-segment-sequence-not-sized-as-announced:" + entry,
             std::to_string(pdfs->get_segment_sequence_in_stream().size()) + " entries for " + std::to_string(pdi.get_num_segments()) + " segments\n" + clip(in.text));
      return;
    }
  const double bpp = static_cast<double>(pdfs->get_data_type_in_stream().size_in_bytes());
  const double need = static_cast<double>(pdfs->get_offset_in_stream()) + bins * bpp;
  if (bins * 4 > 16e6)
    {
      r.count("accepted_projdata_too_large_to_read");
      r.status = 1;
      return;
    }
  // read everything: a file that is too short must be reported now at the latest
  try
    {
      for (int k = pdi.get_min_tof_pos_num(); k <= pdi.get_max_tof_pos_num(); ++k)
        for (int s = pdi.get_min_segment_num(); s <= pdi.get_max_segment_num(); ++s)
          {
            SegmentByView<float> seg = pd.get_segment_by_view(s, k);
            (void)seg;
          }
    }
  catch (const std::exception& e)
    {
      r.status = 0;
      r.how = "rejected-when-reading-data";
      return;
    }
  RefScan sc(in.text);
  const long L = referenced_data_len(sc, in);
  if (L >= 0)
    {
      r.count("data_length_checks");
      if (need > static_cast<double>(L))
        {
          r.viol("short-data-file-accepted:" + entry,
                 "all " + std::to_string(static_cast<long>(bins)) + " bins x " + std::to_string(static_cast<long>(bpp)) + " bytes (+ offset "
                     + std::to_string(static_cast<long>(pdfs->get_offset_in_stream())) + ") were read without error from a data file of " + std::to_string(L)
                     + " bytes (mutation " + in.kinds + ")\n--- header:\n" + clip(in.text));
          return;
        }
    }
  else
    r.count("data_length_check_not_applicable");
  r.status = 1;
}

const char*
entry_name(const std::string& family, int variant)
{
  if (family == "image")
    return variant == 0 ? "read_interfile_image(file)" : variant == 1 ? "read_from_file<DiscretisedDensity>" : "read_interfile_image(stream)";
  if (family == "dynimage")
    return variant == 0 ? "read_interfile_dynamic_image" : "read_from_file<DynamicDiscretisedDensity>";
  if (family == "pdfs" || family == "spect" || family == "siemens")
    return variant == 0 ? "ProjData::read_from_file" : "read_interfile_PDFS";
  if (family == "multi")
    return variant == 0 ? "MultipleDataSetHeader::parse" : "MultipleProjData::read_from_file";
  if (family == "kp")
    return "KeyParser::parse";
  return "read_registered_object";
}
int
num_entry_variants(const std::string& family)
{
  if (family == "image")
    return 3;
  if (family == "kp" || family == "par")
    return 1;
  return 2;
}

// run one input through its entry point; sig receives a signature of the accepted object (for same-as-seed comparisons)
void
run_entry(Result& r, const Input& in, std::string& sig)
{
  const std::string& fam = in.seed->family;
  const std::string entry = entry_name(fam, in.entry_variant);
  r.status = 0;
  AllocScope guard;
  try
    {
      if (fam == "image")
        {
          std::unique_ptr<VoxelsOnCartesianGrid<float>> im;
          if (in.entry_variant == 0)
            im.reset(read_interfile_image(in.path));
          else if (in.entry_variant == 1)
            {
              std::unique_ptr<DiscretisedDensity<3, float>> d = read_from_file<DiscretisedDensity<3, float>>(in.path);
              VoxelsOnCartesianGrid<float>* v = dynamic_cast<VoxelsOnCartesianGrid<float>*>(d.get());
              if (v)
                {
                  d.release();
                  im.reset(v);
                }
            }
          else
            {
              std::istringstream s(in.text);
              im.reset(read_interfile_image(s, g_corpus.dir));
            }
          if (!im)
            r.how = "null";
          else
            {
              check_image(r, *im, in, entry, 1);
              sig = image_signature(*im);
            }
        }
      else if (fam == "dynimage")
        {
          std::unique_ptr<DynamicDiscretisedDensity> d;
          if (in.entry_variant == 0)
            d.reset(read_interfile_dynamic_image(in.path));
          else
            d = read_from_file<DynamicDiscretisedDensity>(in.path);
          if (!d)
            r.how = "null";
          else if (d->get_num_time_frames() < 1)
            {
              // nothing was read: nothing to be inconsistent with
              r.status = 1;
              sig = "frames=0";
            }
          else
            {
              const VoxelsOnCartesianGrid<float>* v = dynamic_cast<const VoxelsOnCartesianGrid<float>*>(&d->get_density(1));
              if (!v)
                r.status = 1;
              else
                {
                  check_image(r, *v, in, entry, static_cast<int>(d->get_num_time_frames()));
                  sig = "frames=" + std::to_string(d->get_num_time_frames()) + ";" + image_signature(*v);
                }
            }
        }
      else if (fam == "pdfs" || fam == "spect" || fam == "siemens")
        {
          shared_ptr<ProjData> pd;
          if (in.entry_variant == 0)
            pd = ProjData::read_from_file(in.path);
          else
            pd.reset(read_interfile_PDFS(in.path, std::ios::in));
          if (!pd)
            r.how = "null";
          else
            {
              check_projdata(r, *pd, in, entry);
              sig = pdi_signature(*pd);
            }
        }
      else if (fam == "multi")
        {
          if (in.entry_variant == 0)
            {
              MultipleDataSetHeader h;
              std::istringstream s(in.text);
              if (!h.parse(s))
                r.how = "false";
              else
                {
                  const size_t n = h.get_num_data_sets();
                  std::ostringstream sg;
                  sg << n;
                  bool ok = true;
                  for (size_t i = 0; i < n && ok; ++i)
                    {
                      std::string f;
                      try
                        {
                          f = h.get_filename(i);
                        }
                      catch (const std::out_of_range&)
                        {
                          r.viol("multi-header-filenames-not-sized-as-announced", std::to_string(n) + " data sets announced, file name " + std::to_string(i) + " missing\n" + clip(in.text));
                          ok = false;
                        }
                      if (ok && f.empty())
                        {
                          r.viol("multi-header-accepted-with-empty-filename", clip(in.text));
                          ok = false;
                        }
                      sg << "|" << f;
                    }
                  if (ok)
                    r.status = 1;
                  sig = sg.str();
                }
            }
          else
            {
              std::unique_ptr<MultipleProjData> m = MultipleProjData::read_from_file(in.path);
              if (!m)
                r.how = "null";
              else
                {
                  r.status = 1;
                  sig = "gates=" + std::to_string(m->get_num_gates());
                }
            }
        }
      else if (fam == "kp")
        {
          TestParser p;
          std::istringstream s(in.text);
          if (!p.parse(s))
            r.how = "false";
          else if (!p.sizes_consistent())
            r.viol("keyparser-vectors-not-sized-as-announced", "number of items = " + std::to_string(p.n_items) + ", state " + clip(p.state(), 600) + "\n" + clip(in.text));
          else
            {
              r.status = 1;
              sig = p.state();
            }
        }
      else if (fam == "par")
        {
          const RegClass& c = all_classes()[static_cast<size_t>(in.cls)];
          std::istringstream s(in.text);
          std::unique_ptr<RegisteredObjectBase> obj(c.read(&s, c.name));
          if (!obj)
            r.how = "null";
          else
            {
              const std::string t = obj->parameter_info();
              sig = t;
              r.status = 1;
              // printing and re-parsing the accepted object is executed under the sanitizers; the texts are only compared in
              // "roundtrip" mode (objects reached from malformed text are outside the quantifier of the fixed-point clause)
              std::istringstream s2(t);
              std::unique_ptr<RegisteredObjectBase> obj2;
              try
                {
                  obj2.reset(c.read(&s2, c.name));
                }
              catch (const std::exception&)
                {}
              if (obj2)
                {
                  const std::string t2 = obj2->parameter_info();
                  r.count(t2 == t ? "accepted_objects_reprinted_identically" : "accepted_objects_reprinted_differently");
                }
              else
                r.count("accepted_objects_own_text_rejected");
            }
        }
    }
  catch (const std::bad_alloc&)
    {
      r.status = 0;
      r.how = "bad_alloc";
    }
  catch (const std::exception& e)
    {
      r.status = r.viols.empty() ? 0 : 2;
      r.how = std::string("exception: ") + clip(e.what(), 300);
    }
  catch (...)
    {
      r.status = r.viols.empty() ? 0 : 2;
      r.how = "exception-non-std";
    }
  finish_alloc(r, entry, in);
}
} // namespace

// =====================================================================================================================
// grammar-aware mutations
// =====================================================================================================================
namespace {
struct MutationStep
{
  std::string text;    // text after this step
  std::string kinds;   // kinds applied so far
  std::string culprit; // normalised keyword of the line this step changed ("" if it is not a single line)
};
struct Mutated
{
  std::string text;
  std::string kinds;
  std::string culprit;
  std::string last_culprit;
  int n_culprits = 0;
  bool same = false;
  std::vector<MutationStep> steps;
};

const std::vector<std::string>&
value_pool()
{
  static std::vector<std::string> v;
  if (v.empty())
    {
      const char* c[] = { "0",     "-1",       "1",          "2",     "3",      "7",        "255",        "65535",  "65536",  "100000", "2147483647",
                          "-2147483648", "4294967295", "4294967296", "1000000000", "99999999999999999999", "1e9", "1e38", "1e-38", "-1e30", "1e308",
                          "nan",   "inf",      "-inf",       "abc",   "",       "{1,2,3}",  "{",          "{}",     "{1,2",   "1,2}",   "{{1,2},{3}}",
                          "{1,,2}", "0x10",    "1.5",        "-0.0",  "  7  ",  "None",     "%s%s%n",     "{2000000000}", "{-5, 5}", ";", ":=", "[3]" };
      for (auto s : c)
        v.push_back(s);
      v.push_back(std::string(1500, 'A'));
      v.push_back(std::string(400, '9'));
      v.push_back("{" + std::string(300, '1') + "}");
    }
  return v;
}
const std::vector<std::string>&
index_pool()
{
  static const std::vector<std::string> v = { "0", "-1", "-2147483648", "2", "3", "4", "5", "6", "100", "65536", "2147483647", "4294967297", "99999999999", "*", "", "a", "1][2", " 1 ", "1.5" };
  return v;
}
const std::vector<std::string>&
splice_pool(const std::string& family)
{
  static const std::vector<std::string> interfile = {
    "!version of keys := STIR3.0",
    "!version of keys := 3.3",
    "number of time frames := 3",
    "number of time frames := 0",
    "!PET data type := garbage",
    "!PET data type := Transmission",
    "!PET data type := Image",
    "!PET data type := Emission",
    "%sms-mi version number := 3.4",
    "!imaging modality := nucmed",
    "!imaging modality := PT",
    "number of energy windows := 0",
    "number of energy windows := 3",
    "energy window lower level[2] := 100",
    "energy window lower level := 100",
    "energy window upper level[1] := 600",
    "number of dimensions := 5",
    "number of dimensions := 3",
    "number of dimensions := 2",
    "number of image data types := 2",
    "quantification units := 2",
    "image scaling factor[1] := 3",
    "image scaling factor[1] := {1,2}",
    "process status := garbage",
    "!type of data := Tomographic",
    "!type of data := garbage",
    "!type of data := PET",
    "patient orientation := garbage",
    "patient rotation := prone",
    "!number format := bit",
    "!number format := signed integer",
    "!number of bytes per pixel := 8",
    "imagedata byte order := garbage",
    "TOF mashing factor := 0",
    "applied corrections := {arc correction}",
    "Scanner geometry (BlocksOnCylindrical/Cylindrical/Generic) := Generic",
    "Scanner geometry (BlocksOnCylindrical/Cylindrical/Generic) := BlocksOnCylindrical",
    "orbit := circular",
    "number of projections := -1",
    "minimum ring difference per segment := {0}",
    "maximum ring difference per segment := { -1,0,1,2}",
    "matrix size [2] := {3,4,5,6}",
    "matrix axis label [4] := segment",
    "data offset in bytes[1] := 7",
    "data offset in bytes := 100000",
    "isotope name := F-18",
    "radionuclide name[1] := ^18^Fluorine",
    "study date := 1900:02:30",
    "study_time := 25:61:61",
    "image duration (sec)[1] := -5",
    "image relative start time (sec)[2] := 1e300",
    "index nesting level := {time frame, data type}",
    "!END OF INTERFILE :=",
    "!INTERFILE :=",
    // several lines at once (keys whose handlers interact)
    "!version of keys := STIR3.0\nnumber of energy windows := 3\nenergy window lower level := 100\nenergy window upper level := 600",
    "number of energy windows := 2\nenergy window lower level[2] := 100\nenergy window upper level[2] := 600",
    "number of time frames := 2\nimage duration (sec)[2] := 5\nimage relative start time (sec)[2] := 100",
    "number of time frames := 1000\nimage duration (sec) := 5",
    "number of image data types := 2\nimage scaling factor[2] := 3\ndata offset in bytes[2] := 480",
    "number of dimensions := 1\n!matrix size [1] := 4",
  };
  static const std::vector<std::string> kp = {
    "number of items := 100", "number of items := 0", "item int[5] := 1", "item list[2] := {1,2,3}", "shape type := Box3D", "shape type := None",
    "shape type := Unknown shape", "end test parameters :=", "test parameters :=", "End :=", "choice := unknown", "old int value := 5",
    "array 2d := {{1,2,3},{4}}", "coordinate := {1,2}", "list of strings := {a", "item string := no index",
  };
  static const std::vector<std::string> multi = { "total number of data sets := 5", "total number of data sets := 0", "data set[3] := x.hs", "data set := y.hs", "End :=", "Multi :=" };
  if (family == "kp" || family == "par")
    return kp;
  if (family == "multi")
    return multi;
  return interfile;
}

const char* const KIND_NAMES[] = { "value", "index", "add-index", "drop-index", "delete-line", "dup-line", "swap-lines", "trunc-line", "trunc-byte",
                                   "kw-respell", "bytes", "splice", "continuation", "short-data" };
enum Kind
{
  K_VALUE,
  K_INDEX,
  K_ADD_INDEX,
  K_DROP_INDEX,
  K_DELETE,
  K_DUP,
  K_SWAP,
  K_TRUNC_LINE,
  K_TRUNC_BYTE,
  K_RESPELL,
  K_BYTES,
  K_SPLICE,
  K_CONT,
  K_SHORT_DATA,
  K_NUM
};

std::vector<int>
assignment_lines(const std::vector<std::string>& lines, bool with_index)
{
  std::vector<int> v;
  for (size_t i = 0; i < lines.size(); ++i)
    {
      RefLine r = ref_split(lines[i]);
      if (r.is_assignment && (!with_index || r.has_index))
        v.push_back(static_cast<int>(i));
    }
  return v;
}

void
note_culprit(Mutated& m, const std::string& kw)
{
  ++m.n_culprits;
  m.culprit = m.n_culprits == 1 ? kw : std::string();
  m.last_culprit = kw;
}

// apply one mutation of the given kind; returns false if not applicable
bool
apply_kind(Mutated& m, std::vector<std::string>& lines, int kind, const Seed& seed, vf::Rng& rng)
{
  if (lines.empty())
    return false;
  switch (kind)
    {
      case K_VALUE: {
        auto al = assignment_lines(lines, false);
        if (al.empty())
          return false;
        const int li = rng.pick(al);
        RefLine r = ref_split(lines[li]);
        std::string nv;
        bool isint;
        if (is_number_token(r.value, isint) && rng.coin(0.25))
          {
            const double x = std::atof(r.value.c_str());
            const int how = static_cast<int>(rng.range(0, 4));
            std::ostringstream s;
            s << std::setprecision(12) << (how == 0 ? x * 2 : how == 1 ? x + 1 : how == 2 ? x - 1 : how == 3 ? -x : x * 1000);
            nv = s.str();
          }
        else
          nv = rng.pick(value_pool());
        lines[li] = lines[li].substr(0, r.value_begin) + " " + nv;
        note_culprit(m, r.kw);
        return true;
      }
      case K_INDEX: {
        auto al = assignment_lines(lines, true);
        if (al.empty())
          return false;
        const int li = rng.pick(al);
        const std::string& l = lines[li];
        const size_t b = l.find('['), e = l.find(']', b);
        lines[li] = l.substr(0, b + 1) + rng.pick(index_pool()) + l.substr(e);
        note_culprit(m, ref_split(l).kw);
        return true;
      }
      case K_ADD_INDEX: {
        auto al = assignment_lines(lines, false);
        if (al.empty())
          return false;
        const int li = rng.pick(al);
        RefLine r = ref_split(lines[li]);
        if (r.has_index)
          return false;
        lines[li] = lines[li].substr(0, r.kw_end) + "[" + rng.pick(index_pool()) + "]" + lines[li].substr(r.kw_end);
        note_culprit(m, r.kw);
        return true;
      }
      case K_DROP_INDEX: {
        auto al = assignment_lines(lines, true);
        if (al.empty())
          return false;
        const int li = rng.pick(al);
        const std::string& l = lines[li];
        const size_t b = l.find('['), e = l.find(']', b);
        note_culprit(m, ref_split(l).kw);
        lines[li] = l.substr(0, b) + l.substr(e + 1);
        return true;
      }
      case K_DELETE: {
        const size_t li = static_cast<size_t>(rng.range(0, static_cast<long>(lines.size()) - 1));
        note_culprit(m, ref_split(lines[li]).kw);
        lines.erase(lines.begin() + static_cast<long>(li));
        return true;
      }
      case K_DUP: {
        const size_t li = static_cast<size_t>(rng.range(0, static_cast<long>(lines.size()) - 1));
        const size_t at = rng.coin(0.5) ? li + 1 : static_cast<size_t>(rng.range(0, static_cast<long>(lines.size())));
        const std::string l = lines[li];
        note_culprit(m, ref_split(l).kw);
        lines.insert(lines.begin() + static_cast<long>(at), l);
        return true;
      }
      case K_SWAP: {
        if (lines.size() < 2)
          return false;
        const size_t a = static_cast<size_t>(rng.range(0, static_cast<long>(lines.size()) - 1));
        size_t b = rng.coin(0.5) ? std::min(a + 1, lines.size() - 1) : static_cast<size_t>(rng.range(0, static_cast<long>(lines.size()) - 1));
        if (a == b)
          return false;
        note_culprit(m, ref_split(lines[a]).kw);
        std::swap(lines[a], lines[b]);
        return true;
      }
      case K_TRUNC_LINE: {
        const size_t keep = static_cast<size_t>(rng.range(0, static_cast<long>(lines.size()) - 1));
        lines.resize(keep);
        ++m.n_culprits;
        m.culprit.clear();
        return true;
      }
      case K_TRUNC_BYTE: {
        std::string t = join_lines(lines);
        if (t.size() < 2)
          return false;
        t.resize(static_cast<size_t>(rng.range(0, static_cast<long>(t.size()) - 1)));
        lines = split_lines(t);
        ++m.n_culprits;
        m.culprit.clear();
        return true;
      }
      case K_BYTES: {
        std::string t = join_lines(lines);
        if (t.empty())
          return false;
        const int n = static_cast<int>(rng.range(1, 4));
        for (int i = 0; i < n; ++i)
          {
            const size_t p = static_cast<size_t>(rng.range(0, static_cast<long>(t.size()) - 1));
            const int how = static_cast<int>(rng.range(0, 2));
            static const char interesting[] = { '\0', '\n', '\r', '[', ']', ':', '=', '{', '}', ',', '\\', '$', ' ', '\t', '-', '9', '\x80', '\xff', ';', '!' };
            const char c = rng.coin(0.7) ? interesting[rng.range(0, static_cast<long>(sizeof interesting) - 1)] : static_cast<char>(rng.range(0, 255));
            if (how == 0)
              t[p] = c;
            else if (how == 1)
              t.insert(t.begin() + static_cast<long>(p), c);
            else
              t.erase(p, 1);
            if (t.empty())
              break;
          }
        {
          // if the bytes changed a single line, that line's keyword is the changed key
          std::vector<std::string> nl = split_lines(t);
          std::map<std::string, int> bal;
          for (auto& l : lines)
            --bal[l];
          int n_changed = 0;
          for (auto& l : nl)
            if (++bal[l] > 0)
              ++n_changed;
          // (named by the keyword of the line before the change, so that the name does not depend on the random bytes)
          std::string changed;
          int n_removed = 0;
          for (auto& l : lines)
            if (bal[l] < 0)
              {
                ++bal[l];
                ++n_removed;
                changed = l;
              }
          lines = nl;
          if (n_changed <= 1 && n_removed == 1 && !ref_split(changed).kw.empty())
            note_culprit(m, ref_split(changed).kw);
          else
            {
              ++m.n_culprits;
              m.culprit.clear();
            }
        }
        return true;
      }
      case K_SPLICE: {
        std::string l = rng.coin(0.8) ? rng.pick(splice_pool(seed.family)) : rng.pick(lines);
        const size_t at = static_cast<size_t>(rng.range(1, static_cast<long>(lines.size())));
        const std::vector<std::string> ls = split_lines(l); // a pool entry can consist of several lines
        note_culprit(m, ref_split(ls.empty() ? l : ls[0]).kw);
        lines.insert(lines.begin() + static_cast<long>(std::min(at, lines.size())), ls.begin(), ls.end());
        return true;
      }
      case K_CONT: {
        const size_t li = static_cast<size_t>(rng.range(0, static_cast<long>(lines.size()) - 1));
        const int how = static_cast<int>(rng.range(0, 3));
        note_culprit(m, ref_split(lines[li]).kw);
        if (how == 0)
          lines[li] += "\\";
        else if (how == 1)
          lines[li] += "${HOME}";
        else if (how == 2)
          lines[li] += "${C17_UNSET_VARIABLE}x${";
        else
          lines[li] += "\r";
        return true;
      }
    default:
      return false;
    }
}

Mutated
mutate(const Seed& seed, vf::Rng& rng)
{
  Mutated m;
  std::vector<std::string> lines = split_lines(seed.text);
  const double u = rng.u01();
  if (u < 0.08)
    {
      m.text = decorate_text(seed.text, rng);
      m.kinds = "kw-respell";
      m.same = true;
      // image headers: 'image scaling factor[f] := x' may also be given as one factor per plane, '{x,...,x}' (InterfileHeader
      // expands a single number to that list and rejects lists of another length); mixing both forms over the data sets of a
      // dynamic / parametric image is legal and must give the same image
      if ((seed.family == "image" || seed.family == "dynimage") && rng.coin(0.6))
        {
          std::vector<std::string> ls = split_lines(m.text);
          long planes = 0;
          for (auto& l : ls)
            {
              RefLine r = ref_split(l);
              if (r.is_assignment && r.kw == "matrix size" && r.has_index && std::atoi(r.index_raw.c_str()) == 3)
                planes = std::atol(r.value.c_str());
            }
          bool first = true, any = false;
          if (planes >= 2 && planes <= 200)
            for (auto& l : ls)
              {
                RefLine r = ref_split(l);
                if (!(r.is_assignment && r.kw == "image scaling factor") || r.value.empty() || r.value[0] == '{')
                  continue;
                // always the first data set (the later ones then follow a complete list), the others at random
                if (first || rng.coin(0.4))
                  {
                    std::string list = "{";
                    for (long k = 0; k < planes; ++k)
                      list += (k ? "," : "") + r.value;
                    l = l.substr(0, r.value_begin) + " " + list + "}";
                    any = true;
                  }
                first = false;
              }
          if (any)
            {
              m.text = join_lines(ls);
              m.kinds = "kw-respell+scaling-factor-per-plane";
            }
        }
      return m;
    }
  if (u < 0.13 && !seed.trunc_data_file.empty())
    {
      for (auto& l : lines)
        {
          RefLine r = ref_split(l);
          if (r.is_assignment && r.kw == "name of data file")
            l = l.substr(0, r.value_begin) + " " + seed.trunc_data_file;
        }
      m.kinds = "short-data";
      m.culprit = "name of data file";
      m.n_culprits = 1;
      m.steps.push_back({ join_lines(lines), m.kinds, m.culprit });
      if (rng.coin(0.3))
        {
          apply_kind(m, lines, K_VALUE, seed, rng);
          m.kinds += "+value";
          m.steps.push_back({ join_lines(lines), m.kinds, m.last_culprit });
        }
      m.text = join_lines(lines);
      return m;
    }
  static const int kinds[] = { K_VALUE, K_VALUE, K_VALUE, K_VALUE, K_INDEX, K_INDEX, K_ADD_INDEX, K_DROP_INDEX, K_DELETE, K_DELETE, K_DUP,
                               K_SWAP,  K_SWAP,  K_TRUNC_LINE, K_TRUNC_BYTE, K_BYTES, K_SPLICE, K_SPLICE, K_SPLICE, K_CONT };
  const int n = rng.coin(0.7) ? 1 : (rng.coin(0.67) ? 2 : 3);
  for (int i = 0; i < n; ++i)
    {
      for (int attempt = 0; attempt < 6; ++attempt)
        {
          const int k = kinds[rng.range(0, static_cast<long>(sizeof kinds / sizeof kinds[0]) - 1)];
          m.last_culprit.clear();
          if (apply_kind(m, lines, k, seed, rng))
            {
              m.kinds += (m.kinds.empty() ? "" : "+") + std::string(KIND_NAMES[k]);
              m.steps.push_back({ join_lines(lines).substr(0, 60000), m.kinds, m.last_culprit });
              break;
            }
        }
    }
  m.text = join_lines(lines);
  if (m.text.size() > 60000)
    m.text.resize(60000);
  if (rng.coin(0.04))
    {
      // the text ends with the continuation character and NO end-of-line after it (a text editor that does not
      // terminate the last line): the parser has to stop at the end of the input
      while (!m.text.empty() && (m.text.back() == '\n' || m.text.back() == '\r'))
        m.text.pop_back();
      m.text += "\\";
      m.kinds += (m.kinds.empty() ? "" : "+") + std::string("continuation-at-eof");
      m.steps.push_back({ m.text, m.kinds, "(last line)" });
    }
  return m;
}
} // namespace

// =====================================================================================================================
// case drivers
// =====================================================================================================================
namespace {

std::string
hex_hash(const std::string& s)
{
  return vf::fmt("%016llx", static_cast<unsigned long long>(vf::hash_str(s)));
}

// lines of the input that are not in the seed ('+') and lines of the seed that are not in the input ('-')
std::string
diff_vs_seed(const std::string& seed_text, const std::string& input_text)
{
  std::map<std::string, int> balance;
  auto ls = split_lines(seed_text), li = split_lines(input_text);
  for (auto& l : ls)
    --balance[l];
  for (auto& l : li)
    ++balance[l];
  std::string d;
  int shown = 0;
  for (size_t i = 0; i < li.size() && shown < 12; ++i)
    if (balance[li[i]] > 0)
      {
        --balance[li[i]];
        d += "+ line " + std::to_string(i + 1) + ": " + clip(li[i], 160) + "\n";
        ++shown;
      }
  for (size_t i = 0; i < ls.size() && shown < 24; ++i)
    if (balance[ls[i]] < 0)
      {
        ++balance[ls[i]];
        d += "- seed line " + std::to_string(i + 1) + ": " + clip(ls[i], 160) + "\n";
        ++shown;
      }
  if (li.size() != ls.size())
    d += "(input has " + std::to_string(li.size()) + " lines, seed " + std::to_string(ls.size()) + ")\n";
  return d.empty() ? std::string("(same lines as the seed, possibly in another order)\n") : d;
}

// copy the outcome of an isolated run into the case context
void
report(Ctx& ctx, const Result& r, const std::string& input_text, const std::string& what, const Seed* seed = nullptr)
{
  for (auto& v : r.viols)
    ctx.violation(v.first, (r.complete ? v.second : v.second + "\n--- input (" + what + ", " + std::to_string(input_text.size()) + " bytes):\n" + clip(input_text, 3000))
                               + (seed ? "\n--- difference from the seed " + seed->name + ":\n" + diff_vs_seed(seed->text, input_text) : std::string()));
  for (auto& c : r.counts)
    ctx.count(c.first, c.second);
}

// ---- parameter texts of default-constructed registered objects (family "par"), computed lazily in an isolated child
std::map<int, Seed> g_par_seeds;
std::map<int, std::string> g_par_why;

const Seed*
par_seed(Ctx& ctx, int cls)
{
  auto it = g_par_seeds.find(cls);
  if (it == g_par_seeds.end())
    {
      const RegClass& c = all_classes()[static_cast<size_t>(cls)];
      Result r = g_iso.run(ctx, "read_registered_object(start keyword only)", "default object of " + c.id(), [&](Result& rr) {
        std::string why;
        rr.text = default_parameter_info(c, why);
        rr.how = why;
        rr.status = rr.text.empty() ? 3 : 1;
      });
      Seed s;
      s.name = "par:" + c.id();
      s.family = "par";
      s.ext = ".par";
      s.cls = cls;
      if (r.complete)
        {
          s.text = r.text;
          g_par_why[cls] = r.how;
        }
      else
        {
          // parsing nothing but the start keyword killed the process
          report(ctx, r, "<start keyword of " + c.id() + "> :=", "default object");
          g_par_why[cls] = "crash";
        }
      it = g_par_seeds.emplace(cls, s).first;
    }
  return it->second.text.empty() ? nullptr : &it->second;
}

// ---- signature of the object an entry point makes of the unchanged seed
std::map<std::pair<const Seed*, int>, std::pair<int, std::string>> g_seed_sig;

std::string
input_path(const Seed& seed)
{
  return g_corpus.dir + "/in_" + std::to_string(::getpid()) + seed.ext;
}

const std::pair<int, std::string>&
seed_signature(Ctx& ctx, const Seed& seed, int variant)
{
  const auto k = std::make_pair(&seed, variant);
  auto it = g_seed_sig.find(k);
  if (it != g_seed_sig.end())
    return it->second;
  Input in;
  in.seed = &seed;
  in.text = seed.text;
  in.kinds = "none";
  in.entry_variant = variant;
  in.cls = seed.cls;
  in.path = input_path(seed);
  spit(in.path, in.text);
  const std::string entry = entry_name(seed.family, variant);
  Result r = g_iso.run(ctx, entry, "unchanged seed " + seed.name + " through " + entry, [&](Result& rr) {
    std::string sig;
    run_entry(rr, in, sig);
    rr.text = sig;
  });
  report_alloc(r, entry, in);
  report(ctx, r, in.text, "unchanged seed " + seed.name);
  return g_seed_sig.emplace(k, std::make_pair(r.complete ? r.status : 2, r.text)).first->second;
}

const Seed*
pick_seed(Ctx& ctx, const std::vector<std::pair<std::string, int>>& weights)
{
  int total = 0;
  for (auto& w : weights)
    total += w.second;
  for (int attempt = 0; attempt < 8; ++attempt)
    {
      long x = ctx.rng.range(0, total - 1);
      std::string fam;
      for (auto& w : weights)
        {
          if (x < w.second)
            {
              fam = w.first;
              break;
            }
          x -= w.second;
        }
      if (fam == "par")
        {
          const int cls = static_cast<int>(ctx.rng.range(0, static_cast<long>(all_classes().size()) - 1));
          const Seed* s = par_seed(ctx, cls);
          if (s)
            return s;
          continue;
        }
      auto it = g_corpus.by_family.find(fam);
      if (it == g_corpus.by_family.end() || it->second.empty())
        continue;
      return &g_corpus.seeds[static_cast<size_t>(ctx.rng.pick(it->second))];
    }
  return &g_corpus.seeds[static_cast<size_t>(g_corpus.by_family["kp"][0])];
}

// =====================================================================================================================
// mode "mutate": one mutated input through one entry point
// =====================================================================================================================
void
run_mutate_case(Ctx& ctx)
{
  build_corpus(ctx);
  static const std::vector<std::pair<std::string, int>> weights
      = { { "image", 20 }, { "dynimage", 8 }, { "pdfs", 26 }, { "spect", 8 }, { "siemens", 8 }, { "multi", 5 }, { "kp", 12 }, { "par", 13 } };
  const Seed& seed = *pick_seed(ctx, weights);
  const Mutated m = mutate(seed, ctx.rng);
  if (m.kinds.find("continuation-at-eof") != std::string::npos)
    ctx.count("mutations_continuation_at_eof");
  if (m.kinds.find("scaling-factor-per-plane") != std::string::npos)
    ctx.count("equivalent_headers_scaling_factor_per_plane");
  Input in;
  in.seed = &seed;
  in.text = m.text;
  in.kinds = m.kinds.empty() ? std::string("none") : m.kinds;
  in.culprit = m.steps.empty() ? m.culprit : m.steps.back().culprit;
  in.same_as_seed = m.same;
  in.cls = seed.cls;
  in.entry_variant = static_cast<int>(ctx.rng.range(0, num_entry_variants(seed.family) - 1));
  in.path = input_path(seed);
  const std::string entry = entry_name(seed.family, in.entry_variant);
  ctx.desc.add("mode", "mutate").add("family", seed.family).add("seed", seed.name).add("entry", entry).add("mutation", in.kinds);
  ctx.desc.add("changed_key", m.culprit).add("input_bytes", static_cast<long>(in.text.size())).add("input_hash", hex_hash(in.text));
  std::pair<int, std::string> ref(0, std::string());
  if (in.same_as_seed)
    ref = seed_signature(ctx, seed, in.entry_variant);
  // (the first argument of run() only names violations that come without a stack: signals, hangs)
  auto run_input = [&](const Input& inp) {
    spit(inp.path, inp.text);
    Result rr = g_iso.run(ctx, entry + ":" + (inp.culprit.empty() ? std::string("no-single-key") : keyify(inp.culprit)),
                          seed.name + " [" + inp.kinds + "] through " + entry, [&](Result& r1) {
                            std::string sig;
                            run_entry(r1, inp, sig);
                            r1.text = sig;
                          });
    report_alloc(rr, entry, inp);
    return rr;
  };
  Result r = run_input(in);
  if (!r.viols.empty() && m.steps.size() > 1)
    {
      // several mutations were applied one after the other: report the shortest prefix of them that is mis-handled
      // (smaller witness; the keyword changed by its last step names violations that come without a stack)
      for (size_t k = 0; k + 1 < m.steps.size(); ++k)
        {
          Input pin = in;
          pin.text = m.steps[k].text;
          pin.kinds = m.steps[k].kinds;
          pin.culprit = m.steps[k].culprit;
          Result pr = run_input(pin);
          ctx.count("prefix_reruns_for_blame");
          if (!pr.viols.empty())
            {
              in = pin;
              r = pr;
              ctx.desc.add("reported_prefix", in.kinds);
              break;
            }
        }
    }
  report(ctx, r, in.text, "mutation " + in.kinds + " of " + seed.name, &seed);
  ctx.nontrivial = true;
  ctx.count("mutated_inputs");
  ctx.count("inputs_" + seed.family);
  ctx.count("entry_" + keyify(entry));
  {
    // per mutation kind
    const std::string& kinds = m.kinds.empty() ? in.kinds : m.kinds;
    size_t b = 0;
    while (b <= kinds.size())
      {
        size_t e = kinds.find('+', b);
        if (e == std::string::npos)
          e = kinds.size();
        ctx.count("mutation_" + kinds.substr(b, e - b));
        b = e + 1;
      }
  }
  if (!r.complete && r.how != "stopped-by-arithmetic-overflow-report" && r.how != "cpu-budget-exceeded")
    ctx.count(r.viols.empty() ? "children_died_after_harness_allocation_cap" : "children_died");
  else if (r.status == 1)
    ctx.count("inputs_accepted_and_consistent");
  else if (r.status == 0)
    ctx.count("inputs_rejected");
  if (r.max_alloc > (64u << 20))
    ctx.count("inputs_requesting_more_than_64MiB_at_once");
  if (in.same_as_seed && r.complete && r.viols.empty() && ref.first == 1)
    {
      ctx.count("equivalent_respellings_compared");
      if (r.status != 1)
        ctx.violation("keyword-respelling-rejected:" + entry + ":" + seed.family,
                      "the seed is accepted, the same text with keywords respelled (case, white space from {space,tab,_,!}) is not (" + r.how + ")\n--- input:\n"
                          + clip(in.text, 3000));
      else if (r.text != ref.second)
        ctx.violation("keyword-respelling-changes-result:" + entry + ":" + seed.family,
                      "seed gives " + clip(ref.second, 500) + "\nrespelled text gives " + clip(r.text, 500) + "\n--- input:\n" + clip(in.text, 3000));
    }
}

// =====================================================================================================================
// mode "roundtrip": print -> parse -> print for every registered class (default object, then perturbed values)
// =====================================================================================================================
std::string
perturb_values(const std::string& text, vf::Rng& rng, int& changed)
{
  auto lines = split_lines(text);
  changed = 0;
  for (auto& l : lines)
    {
      RefLine r = ref_split(l);
      bool isint = false;
      if (!r.is_assignment || !is_number_token(r.value, isint) || !rng.coin(0.35))
        continue;
      const double x = std::atof(r.value.c_str());
      if (!std::isfinite(x) || std::fabs(x) > 1e6)
        continue;
      std::ostringstream s;
      if (isint)
        {
          const long xi = static_cast<long>(x);
          const int how = static_cast<int>(rng.range(0, 4));
          s << (how == 0 ? xi + 1 : how == 1 ? xi - 1 : how == 2 ? xi * 2 : how == 3 ? (xi == 0 ? 1 : 0) : xi + 3);
        }
      else
        {
          const int how = static_cast<int>(rng.range(0, 3));
          s << std::setprecision(6) << (how == 0 ? x + 0.5 : how == 1 ? x * 2 : how == 2 ? x * 0.5 : x + 1.25);
        }
      l = l.substr(0, r.value_begin) + " " + s.str();
      ++changed;
    }
  return join_lines(lines);
}

void
run_roundtrip_case(Ctx& ctx, long sub)
{
  const auto& classes = all_classes();
  const long ncls = static_cast<long>(classes.size());
  const int cls = static_cast<int>(sub % ncls);
  const long variant = sub / ncls;
  const RegClass& c = classes[static_cast<size_t>(cls)];
  ctx.desc.add("mode", "roundtrip").add("class", c.id()).add("variant", variant == 0 ? std::string("default object") : "perturbed values #" + std::to_string(variant));
  const Seed* s = par_seed(ctx, cls);
  if (variant == 0)
    ctx.count("registered_classes_enumerated");
  if (!s)
    {
      ctx.desc.add("not_constructible_because", g_par_why[cls]);
      if (variant == 0)
        ctx.count("registered_classes_not_default_constructible");
      ctx.count("roundtrip_skipped_" + keyify(g_par_why[cls]));
      return;
    }
  std::string text = s->text;
  std::string what = "default object";
  if (variant > 0)
    {
      int changed = 0;
      text = perturb_values(text, ctx.rng, changed);
      if (ctx.rng.coin(0.5))
        text = decorate_text(text, ctx.rng);
      ctx.desc.add("values_changed", changed).add("input_hash", hex_hash(text));
      what = "object parsed from its default text with " + std::to_string(changed) + " numeric values changed";
    }
  Result r = g_iso.run(ctx, "read_registered_object", "round trip of " + c.id(), [&](Result& rr) {
    AllocScope guard;
    std::string printed = text;
    if (variant > 0)
      {
        std::istringstream in(text);
        std::unique_ptr<RegisteredObjectBase> obj;
        try
          {
            obj.reset(c.read(&in, c.name));
          }
        catch (const std::exception&)
          {}
        if (!obj)
          {
            rr.status = 0;
            rr.how = "perturbed text rejected";
            rr.count("roundtrip_perturbed_texts_rejected");
            return;
          }
        printed = obj->parameter_info();
      }
    rr.status = 1;
    check_fixed_point(rr, c, printed, what);
    rr.count("roundtrip_fixed_points_checked");
    rr.count("roundtrip_lines_compared", static_cast<long>(split_lines(printed).size()));
  });
  report(ctx, r, text, what + " of " + c.id());
  if (variant == 0)
    ctx.count("registered_classes_round_tripped");
  ctx.nontrivial = r.counts.count("roundtrip_fixed_points_checked") > 0 || !r.viols.empty();
}

// =====================================================================================================================
// mode "keywords": (A) TestParser against a reference model, (B) the keyword normaliser, (C) equivalent Interfile headers
// =====================================================================================================================
struct KwLine
{
  std::string text;
  std::function<void(KPState&)> apply; // effect on the reference model (empty: none)
};

std::string
num_text(double v)
{
  std::ostringstream s;
  s << std::setprecision(15) << v;
  return s.str();
}
std::string
random_words(vf::Rng& rng, int max_words)
{
  static const std::vector<std::string> w = { "alpha", "Beta", "x1", "file.hv", "a-b", "(mm)", "3d", "Z", "value" };
  std::string s;
  const int n = static_cast<int>(rng.range(1, max_words));
  for (int i = 0; i < n; ++i)
    s += (i ? " " : "") + rng.pick(w);
  return s;
}
// "keyword[index] := value" with the keyword respelled in a documented-equivalent way
std::string
kw_line(const std::string& kw, const std::string& index, const std::string& value, vf::Rng& rng)
{
  std::string l = rng.coin(0.8) ? decorate_keyword(kw, rng) : kw;
  if (!index.empty())
    l += "[" + index + "]";
  l += rng.coin(0.5) ? " := " : (rng.coin(0.5) ? ":=" : "  :=\t");
  return l + value;
}

KwLine
random_valid_line(vf::Rng& rng, const KPState& model)
{
  KwLine k;
  const int n = model.n_items;
  for (;;)
    {
      const int what = static_cast<int>(rng.range(0, 21));
      switch (what)
        {
          case 0: {
            const int v = static_cast<int>(rng.range(-100000, 100000));
            static const std::vector<std::string> names = { "int value", "integer value", "old int value" };
            k.text = kw_line(rng.pick(names), "", std::to_string(v), rng);
            k.apply = [v](KPState& m) { m.i_v = v; };
            return k;
          }
          case 1: {
            const unsigned v = static_cast<unsigned>(rng.range(0, 4000000000L));
            k.text = kw_line("unsigned value", "", std::to_string(v), rng);
            k.apply = [v](KPState& m) { m.u_v = v; };
            return k;
          }
          case 2: {
            const long v = rng.range(-1000000000000L, 1000000000000L);
            k.text = kw_line("long value", "", std::to_string(v), rng);
            k.apply = [v](KPState& m) { m.l_v = v; };
            return k;
          }
          case 3: {
            const unsigned long v = static_cast<unsigned long>(rng.range(0, 9000000000000L));
            k.text = kw_line("unsigned long value", "", std::to_string(v), rng);
            k.apply = [v](KPState& m) { m.ul_v = v; };
            return k;
          }
          case 4: {
            const float v = 0.25f * static_cast<float>(rng.range(-4000, 4000));
            k.text = kw_line("float value", "", num_text(v), rng);
            k.apply = [v](KPState& m) { m.f_v = v; };
            return k;
          }
          case 5: {
            const double v = 0.125 * static_cast<double>(rng.range(-80000, 80000));
            k.text = kw_line("double value", "", num_text(v), rng);
            k.apply = [v](KPState& m) { m.d_v = v; };
            return k;
          }
          case 6: {
            const bool v = rng.coin();
            k.text = kw_line("bool value", "", v ? "1" : "0", rng);
            k.apply = [v](KPState& m) { m.b_v = v; };
            return k;
          }
          case 7: {
            const std::string v = random_words(rng, 3);
            k.text = kw_line("string value", "", v, rng);
            k.apply = [v](KPState& m) { m.s_v = v; };
            return k;
          }
          case 8: {
            std::vector<int> v;
            std::string t = "{";
            const int len = static_cast<int>(rng.range(1, 4));
            for (int i = 0; i < len; ++i)
              {
                v.push_back(static_cast<int>(rng.range(-50, 50)));
                t += (i ? ", " : "") + std::to_string(v.back());
              }
            t += "}";
            k.text = kw_line("list of ints", "", t, rng);
            k.apply = [v](KPState& m) { m.li_v = v; };
            return k;
          }
          case 9: {
            std::vector<double> v;
            std::string t = "{";
            const int len = static_cast<int>(rng.range(1, 4));
            for (int i = 0; i < len; ++i)
              {
                v.push_back(0.5 * static_cast<double>(rng.range(-50, 50)));
                t += (i ? "," : "") + num_text(v.back());
              }
            t += "}";
            k.text = kw_line("list of doubles", "", t, rng);
            k.apply = [v](KPState& m) { m.ld_v = v; };
            return k;
          }
          case 10: {
            std::vector<std::string> v;
            std::string t = "{";
            const int len = static_cast<int>(rng.range(1, 3));
            for (int i = 0; i < len; ++i)
              {
                v.push_back(random_words(rng, 2));
                t += (i ? ", " : "") + v.back();
              }
            t += "}";
            k.text = kw_line("list of strings", "", t, rng);
            k.apply = [v](KPState& m) { m.ls_v = v; };
            return k;
          }
          case 11: {
            const int v = static_cast<int>(rng.range(0, 6));
            k.text = kw_line("number of items", "", std::to_string(v), rng);
            k.apply = [v](KPState& m) {
              m.n_items = v;
              m.resize_all();
            };
            return k;
          }
        case 12:
          case 13: {
            if (n < 1)
              break;
            const int idx = static_cast<int>(rng.range(1, n));
            const int v = static_cast<int>(rng.range(-1000, 1000));
            k.text = kw_line(rng.coin(0.3) ? "item integer" : "item int", std::to_string(idx), std::to_string(v), rng);
            k.apply = [idx, v](KPState& m) { m.vi_v[static_cast<size_t>(idx - 1)] = v; };
            return k;
          }
          case 14: {
            if (n < 1)
              break;
            const int idx = static_cast<int>(rng.range(1, n));
            const double v = 0.125 * static_cast<double>(rng.range(-8000, 8000));
            k.text = kw_line("item double", std::to_string(idx), num_text(v), rng);
            k.apply = [idx, v](KPState& m) { m.vd_v[static_cast<size_t>(idx - 1)] = v; };
            return k;
          }
          case 15: {
            if (n < 1)
              break;
            const int idx = static_cast<int>(rng.range(1, n));
            const float v = 0.25f * static_cast<float>(rng.range(-4000, 4000));
            k.text = kw_line("item float", std::to_string(idx), num_text(v), rng);
            k.apply = [idx, v](KPState& m) { m.vf_v[static_cast<size_t>(idx - 1)] = v; };
            return k;
          }
          case 16: {
            if (n < 1)
              break;
            const int idx = static_cast<int>(rng.range(1, n));
            const std::string v = random_words(rng, 3);
            k.text = kw_line("item string", std::to_string(idx), v, rng);
            k.apply = [idx, v](KPState& m) { m.vs_v[static_cast<size_t>(idx - 1)] = v; };
            return k;
          }
          case 17: {
            if (n < 1)
              break;
            const int idx = static_cast<int>(rng.range(1, n));
            const unsigned long v = static_cast<unsigned long>(rng.range(0, 9000000000000L));
            k.text = kw_line("item ulong", std::to_string(idx), std::to_string(v), rng);
            k.apply = [idx, v](KPState& m) { m.vul_v[static_cast<size_t>(idx - 1)] = v; };
            return k;
          }
          case 18: {
            if (n < 1)
              break;
            const int idx = static_cast<int>(rng.range(1, n));
            std::vector<int> v;
            std::string t = "{";
            const int len = static_cast<int>(rng.range(1, 3));
            for (int i = 0; i < len; ++i)
              {
                v.push_back(static_cast<int>(rng.range(-50, 50)));
                t += (i ? "," : "") + std::to_string(v.back());
              }
            t += "}";
            k.text = kw_line("item list", std::to_string(idx), t, rng);
            k.apply = [idx, v](KPState& m) { m.vli_v[static_cast<size_t>(idx - 1)] = v; };
            return k;
          }
          case 19: {
            static const std::vector<std::string> ch = { "alpha", "beta gamma", "Delta", "no such choice" };
            const int v = static_cast<int>(rng.range(0, 3));
            // the value is matched with the same normalisation as keywords (documented at find_in_ASCIIlist)
            k.text = kw_line("choice", "", v < 3 && rng.coin(0.5) ? decorate_keyword(ch[static_cast<size_t>(v)], rng) : ch[static_cast<size_t>(v)], rng);
            k.apply = [v](KPState& m) { m.choice = v < 3 ? v : -1; };
            return k;
          }
          case 20: {
            // keywords that must not match anything: state unchanged
            static const std::vector<std::string> unk = { "intvalue", "int value extra", "unknown key", "item", "value int", "int", "number of item", "list of int" };
            k.text = kw_line(rng.pick(unk), rng.coin(0.2) ? "1" : "", "5", rng);
            return k;
          }
          default: {
            const int how = static_cast<int>(rng.range(0, 2));
            k.text = how == 0 ? std::string("; int value := 77") : how == 1 ? std::string("") : kw_line("ignored key", "", random_words(rng, 2), rng);
            return k;
          }
        }
    }
}

// first ';'-separated field in which two state strings differ
std::string
first_differing_field(const std::string& a, const std::string& b)
{
  size_t pa = 0, pb = 0;
  while (pa < a.size() || pb < b.size())
    {
      size_t ea = a.find(';', pa), eb = b.find(';', pb);
      if (ea == std::string::npos)
        ea = a.size();
      if (eb == std::string::npos)
        eb = b.size();
      const std::string fa = a.substr(pa, ea - pa), fb = b.substr(pb, eb - pb);
      if (fa != fb)
        return fa.substr(0, fa.find('='));
      pa = ea + 1;
      pb = eb + 1;
    }
  return "none";
}

void
keywords_testparser(Ctx& ctx)
{
  vf::Rng& rng = ctx.rng;
  KPState model;
  model.resize_all();
  std::vector<std::string> lines;
  lines.push_back(kw_line("test parameters", "", "", rng));
  const int nops = static_cast<int>(rng.range(3, 25));
  // at most one line with an index the parser cannot honour
  const bool with_bad = rng.coin(0.35);
  const int bad_at = with_bad ? static_cast<int>(rng.range(0, nops - 1)) : -1;
  std::string bad_kind, bad_line;
  bool shape_done = false;
  long respelled = 0, indexed = 0, aliases = 0;
  for (int i = 0; i < nops; ++i)
    {
      if (i == bad_at)
        {
          const int n = model.n_items;
          const int how = static_cast<int>(rng.range(0, 3));
          static const std::vector<std::string> vk = { "item int", "item integer", "item double", "item float", "item string", "item ulong", "item list" };
          static const std::vector<std::string> sk = { "int value", "float value", "string value", "list of ints", "bool value" };
          const std::string key = rng.pick(vk);
          const std::string val = key == "item list" ? "{1,2}" : key == "item string" ? "abc" : "9";
          if (how == 0)
            {
              static const std::vector<long> beyond = { 1, 2, 3, 10, 100, 5000, 65536, 1000000, 2147483647L - 6 };
              bad_kind = "index-beyond-size";
              bad_line = kw_line(key, std::to_string(n + rng.pick(beyond)), val, rng);
            }
          else if (how == 1)
            {
              static const std::vector<std::string> low = { "0", "-1", "-2", "-2147483648" };
              bad_kind = "index-below-one";
              bad_line = kw_line(key, rng.pick(low), val, rng);
            }
          else if (how == 2)
            {
              bad_kind = "index-on-scalar-key";
              const std::string sks = rng.pick(sk);
              bad_line = kw_line(sks, std::to_string(rng.range(1, 3)), sks == "list of ints" ? "{1}" : sks == "string value" ? "abc" : "1", rng);
            }
          else
            {
              bad_kind = "vectorised-key-without-index";
              bad_line = kw_line(key, "", val, rng);
            }
          lines.push_back(bad_line);
          continue;
        }
      if (!shape_done && rng.coin(0.06))
        {
          shape_done = true;
          if (rng.coin(0.3))
            {
              lines.push_back(kw_line("shape type", "", "None", rng));
              model.shape_name = "none";
            }
          else
            {
              lines.push_back(kw_line("shape type", "", "Ellipsoid", rng));
              lines.push_back(kw_line("Ellipsoid Parameters", "", "", rng));
              lines.push_back(kw_line("radius-x (in mm)", "", "3", rng));
              lines.push_back(kw_line("radius-y (in mm)", "", "4", rng));
              lines.push_back(kw_line("radius-z (in mm)", "", "5", rng));
              lines.push_back(kw_line("End", "", "", rng));
              model.shape_name = "Ellipsoid";
            }
          continue;
        }
      KwLine k = random_valid_line(rng, model);
      RefLine rl = ref_split(k.text);
      if (rl.is_assignment)
        {
          if (rl.kw_raw != rl.kw)
            ++respelled;
          if (rl.has_index)
            ++indexed;
          if (rl.kw == "integer value" || rl.kw == "old int value" || rl.kw == "item integer")
            ++aliases;
        }
      if (k.apply)
        k.apply(model);
      lines.push_back(k.text);
    }
  lines.push_back(kw_line("end test parameters", "", "", rng));
  if (rng.coin(0.3))
    lines.push_back("int value := 424242"); // after the stop key: must not be read
  // documented-equivalent line layouts: a line ending with a backslash is continued on the next one ("the next line will just be
  // appended"); '\r' is allowed at the end of a line (DOS/Windows files).  Lists are broken after a comma.
  bool continued = false, dos = false;
  if (rng.coin(0.4))
    for (auto& l : lines)
      {
        const size_t ob = l.find('{');
        if (ob == std::string::npos || l.find(":=") == std::string::npos || l.find(":=") > ob)
          continue;
        std::vector<size_t> commas;
        for (size_t i = ob; i < l.size(); ++i)
          if (l[i] == ',')
            commas.push_back(i);
        if (commas.empty() || !rng.coin(0.7))
          continue;
        const int nbreaks = static_cast<int>(rng.range(1, std::min<long>(3, static_cast<long>(commas.size()))));
        rng.shuffle(commas);
        commas.resize(static_cast<size_t>(nbreaks));
        std::sort(commas.begin(), commas.end(), std::greater<size_t>());
        for (size_t c : commas)
          l = l.substr(0, c + 1) + "\\\n" + l.substr(c + 1);
        continued = true;
      }
  std::string text = join_lines(lines);
  if (rng.coin(0.3))
    {
      std::string t;
      for (char ch : text)
        {
          if (ch == '\n')
            t += '\r';
          t += ch;
        }
      text = t;
      dos = true;
    }
  if (continued)
    ctx.count("keyword_texts_with_continued_lines");
  if (dos)
    ctx.count("keyword_texts_with_dos_line_ends");
  if (continued && dos)
    ctx.count("keyword_texts_with_continued_lines_and_dos_line_ends");
  const std::string expect = model.state_of_fields();
  ctx.desc.add("mode", "keywords").add("sub", "test-parser-vs-reference").add("lines", static_cast<long>(lines.size()));
  ctx.desc.add("continued_lines", continued).add("dos_line_ends", dos);
  ctx.desc.add("bad_line", bad_kind).add("input_hash", hex_hash(text));
  Result r = g_iso.run(ctx, "KeyParser::parse", "test parser, " + std::to_string(lines.size()) + " lines", [&](Result& rr) {
    AllocScope guard;
    TestParser p;
    std::istringstream s(text);
    bool ok = false;
    try
      {
        ok = p.parse(s);
      }
    catch (const std::exception& e)
      {
        rr.status = 0;
        rr.how = "exception";
        return;
      }
    if (!ok)
      {
        rr.status = 0;
        rr.how = "false";
        return;
      }
    rr.status = 1;
    rr.text = p.state();
    if (!p.sizes_consistent())
      rr.viol("keywords:vectors-not-sized-as-announced", "number of items = " + std::to_string(p.n_items) + ", state " + clip(rr.text, 600));
    // what the parser prints for itself must parse back to the same state and print the same text
    const std::string t1 = p.parameter_info();
    TestParser q;
    std::istringstream s1(t1);
    bool ok1 = false;
    try
      {
        ok1 = q.parse(s1);
      }
    catch (const std::exception&)
      {}
    rr.count("keyparser_own_text_reparsed");
    if (!ok1)
      rr.viol("keyparser-roundtrip-rejected:TestParser", "parameter_info() of the test parser is rejected when parsed again\n--- text:\n" + clip(t1));
    else
      {
        // (values are printed with 6 significant digits, so the state may differ; the statement is about the text)
        const std::string t2 = q.parameter_info();
        bool jitter = false;
        if (t1 != t2 && !text_diff(t1, t2, jitter).empty() && !jitter)
          rr.viol("keyparser-roundtrip-text-differs:TestParser", text_diff(t1, t2, jitter) + "\n--- first print:\n" + clip(t1));
      }
  });
  report(ctx, r, text, "generated test-parser text");
  ctx.count("keyword_texts_parsed");
  if (!r.complete || !r.viols.empty())
    {
      ctx.nontrivial = true;
      return;
    }
  if (bad_kind.empty())
    {
      if (r.status != 1)
        ctx.violation("keywords:valid-text-rejected", "a text using only registered keywords (respelled), in-range indices and well-formed values is rejected ("
                                                          + r.how + ")\n--- input:\n" + clip(text));
      else if (r.text != expect)
        ctx.violation("keywords:state-differs-from-reference:" + first_differing_field(expect, r.text),
                      "expected " + clip(expect, 700) + "\ngot      " + clip(r.text, 700) + "\n--- input:\n" + clip(text));
      else
        {
          ctx.count("keyword_lines_respelled_and_matched", respelled);
          ctx.count("vectorised_lines_stored_at_index", indexed);
          ctx.count("alias_lines_resolved", aliases);
        }
    }
  else
    {
      ctx.count("bad_index_lines");
      // the field the bad line would store into (a difference elsewhere has nothing to do with the bad line)
      const std::string bad_kw = ref_split(bad_line).kw;
      static const std::map<std::string, std::string> field_of
          = { { "item int", "vi" },   { "item integer", "vi" }, { "item double", "vd" },  { "item float", "vf" },  { "item string", "vs" }, { "item ulong", "vul" },
              { "item list", "vli" }, { "int value", "i" },     { "float value", "f" },   { "string value", "s" }, { "list of ints", "li" }, { "bool value", "b" } };
      const std::string diff_field = first_differing_field(expect, r.text);
      auto fo = field_of.find(bad_kw);
      if (r.status == 1 && r.text != expect && (fo == field_of.end() || fo->second != diff_field))
        ctx.violation("keywords:state-differs-from-reference:" + diff_field,
                      "expected " + clip(expect, 700) + "\ngot      " + clip(r.text, 700) + "\n--- input:\n" + clip(text));
      else if (r.status == 1 && r.text != expect)
        ctx.violation("keywords:bad-index-line-changes-state:" + bad_kind + ":" + diff_field,
                      "line '" + bad_line + "' was accepted; expected (line ignored) " + clip(expect, 700) + "\ngot " + clip(r.text, 700) + "\n--- input:\n"
                          + clip(text));
      else if (r.status == 1)
        ctx.count("bad_index_lines_ignored");
      else
        ctx.count("bad_index_lines_rejected");
    }
  ctx.nontrivial = respelled + indexed + aliases > 0 || !bad_kind.empty();
}

void
keywords_normaliser(Ctx& ctx)
{
  vf::Rng& rng = ctx.rng;
  ctx.desc.add("mode", "keywords").add("sub", "normaliser-vs-reference");
  static const std::string alphabet = "abcdefghijklmnopqrstuvwxyzABCDEFGHIJKLMNOPQRSTUVWXYZ0123456789    \t\t____!!!()-/%.,;:#*+'\"<>{}[]";
  const int n = 60;
  std::vector<std::string> in;
  for (int i = 0; i < n; ++i)
    {
      std::string s;
      const int len = static_cast<int>(rng.range(0, 40));
      for (int k = 0; k < len; ++k)
        s += alphabet[static_cast<size_t>(rng.range(0, static_cast<long>(alphabet.size()) - 1))];
      in.push_back(s);
    }
  ctx.desc.add("strings", static_cast<long>(n)).add("input_hash", hex_hash(join_lines(in)));
  Result r = g_iso.run(ctx, "standardise_interfile_keyword", "normaliser on " + std::to_string(n) + " strings", [&](Result& rr) {
    for (auto& s : in)
      {
        const std::string got = standardise_interfile_keyword(s), want = ref_norm(s);
        rr.count("normaliser_strings_compared");
        if (got != want)
          {
            rr.viol("keywords:normaliser-differs-from-documentation", "standardise_interfile_keyword('" + s + "') = '" + got + "', documented rule gives '" + want + "'");
            break;
          }
        if (standardise_interfile_keyword(got) != got)
          {
            rr.viol("keywords:normaliser-not-idempotent", "'" + s + "' -> '" + got + "' -> '" + standardise_interfile_keyword(got) + "'");
            break;
          }
      }
    rr.status = 1;
  });
  report(ctx, r, join_lines(in), "random keyword strings");
  ctx.nontrivial = true;
}

// a header that is equivalent to the seed by the documented rules: keywords respelled, aliases used, vectorised lines of one
// keyword given in another order
std::string
equivalent_header(const Seed& seed, vf::Rng& rng, long& n_alias, long& n_perm, long& n_respelled)
{
  static const std::map<std::string, std::string> alias_of = { { "tof mashing factor", "%TOF mashing factor" },
                                                               { "maximum number of (unmashed) tof time bins", "Number of TOF time bins" },
                                                               { "size of unmashed tof time bins (ps)", "Size of timing bin (ps)" },
                                                               { "tof timing resolution (ps)", "timing resolution (ps)" },
                                                               { "int value", "integer value" },
                                                               { "item int", "item integer" } };
  auto lines = split_lines(seed.text);
  std::map<std::string, std::vector<size_t>> slots;
  for (size_t i = 0; i < lines.size(); ++i)
    {
      RefLine r = ref_split(lines[i]);
      if (!r.is_assignment)
        continue;
      auto a = alias_of.find(r.kw);
      if (a != alias_of.end() && rng.coin(0.7))
        {
          lines[i] = a->second + lines[i].substr(r.kw_end);
          ++n_alias;
        }
      if (r.has_index)
        slots[r.kw].push_back(i);
    }
  for (auto& s : slots)
    {
      if (s.second.size() < 2 || !rng.coin(0.7))
        continue;
      // all indices must be distinct, otherwise the order matters
      std::set<std::string> idx;
      for (size_t i : s.second)
        idx.insert(ref_split(lines[i]).index_raw);
      if (idx.size() != s.second.size())
        continue;
      std::vector<std::string> l;
      for (size_t i : s.second)
        l.push_back(lines[i]);
      rng.shuffle(l);
      for (size_t k = 0; k < l.size(); ++k)
        {
          if (lines[s.second[k]] != l[k])
            ++n_perm;
          lines[s.second[k]] = l[k];
        }
    }
  for (auto& l : lines)
    {
      RefLine r = ref_split(l);
      if (!r.is_assignment || r.kw.empty() || !rng.coin(0.8))
        continue;
      l = decorate_keyword(r.kw_raw, rng) + l.substr(r.kw_end);
      ++n_respelled;
    }
  return join_lines(lines);
}

void
keywords_headers(Ctx& ctx)
{
  build_corpus(ctx);
  static const std::vector<std::pair<std::string, int>> weights
      = { { "image", 20 }, { "dynimage", 10 }, { "pdfs", 45 }, { "spect", 10 }, { "siemens", 5 }, { "multi", 5 }, { "kp", 5 } };
  const Seed& seed = *pick_seed(ctx, weights);
  Input in;
  in.seed = &seed;
  in.kinds = "equivalent-spelling";
  in.entry_variant = static_cast<int>(ctx.rng.range(0, num_entry_variants(seed.family) - 1));
  in.path = input_path(seed);
  long n_alias = 0, n_perm = 0, n_resp = 0;
  in.text = equivalent_header(seed, ctx.rng, n_alias, n_perm, n_resp);
  const std::string entry = entry_name(seed.family, in.entry_variant);
  ctx.desc.add("mode", "keywords").add("sub", "equivalent-header").add("seed", seed.name).add("entry", entry);
  ctx.desc.add("aliases_used", n_alias).add("indexed_lines_moved", n_perm).add("keywords_respelled", n_resp).add("input_hash", hex_hash(in.text));
  const std::pair<int, std::string> ref = seed_signature(ctx, seed, in.entry_variant);
  spit(in.path, in.text);
  Result r = g_iso.run(ctx, entry, "equivalent spelling of " + seed.name + " through " + entry, [&](Result& rr) {
    std::string sig;
    run_entry(rr, in, sig);
    rr.text = sig;
  });
  report_alloc(r, entry, in);
  report(ctx, r, in.text, "equivalent spelling of " + seed.name, &seed);
  ctx.count("equivalent_headers_parsed");
  if (!r.complete || !r.viols.empty() || ref.first != 1)
    {
      if (ref.first != 1)
        ctx.count("equivalent_headers_seed_not_accepted");
      ctx.nontrivial = !r.viols.empty();
      return;
    }
  ctx.nontrivial = true;
  const std::string what = std::string(n_alias ? "alias+" : "") + (n_perm ? "index-order+" : "") + "respelling";
  if (r.status != 1)
    ctx.violation("keywords:equivalent-header-rejected:" + seed.family + ":" + what,
                  "the seed is accepted; the same header with " + std::to_string(n_alias) + " aliases, " + std::to_string(n_perm) + " vectorised lines reordered, "
                      + std::to_string(n_resp) + " keywords respelled is not (" + r.how + ")\n--- input:\n" + clip(in.text));
  else if (r.text != ref.second)
    ctx.violation("keywords:equivalent-header-changes-result:" + seed.family + ":" + what,
                  "seed gives " + clip(ref.second, 600) + "\nequivalent header gives " + clip(r.text, 600) + "\n--- input:\n" + clip(in.text));
  else
    {
      ctx.count("equivalent_headers_same_result");
      ctx.count("header_aliases_resolved", n_alias);
      ctx.count("header_indexed_lines_reordered", n_perm);
      ctx.count("header_keywords_respelled", n_resp);
    }
}

void
run_keywords_case(Ctx& ctx, long sub)
{
  const long k = sub % 10;
  if (k < 5)
    keywords_testparser(ctx);
  else if (k < 6)
    keywords_normaliser(ctx);
  else
    keywords_headers(ctx);
}

// =====================================================================================================================
// mode "truncate": enumeration of the truncations of every corpus seed (at every line, or at every byte with VERIF_C17_TRUNC=byte,
// optionally every n-th byte with VERIF_C17_TRUNC_STRIDE=n) through every entry point of its family
// =====================================================================================================================
void
run_truncate_case(Ctx& ctx, long sub)
{
  build_corpus(ctx);
  const char* tb = std::getenv("VERIF_C17_TRUNC");
  const bool bytes = tb && std::string(tb) == "byte";
  const char* ts = std::getenv("VERIF_C17_TRUNC_STRIDE");
  const long stride = bytes && ts ? std::max(1L, std::atol(ts)) : 1;
  const long phase = stride > 1 ? static_cast<long>(ctx.seed % static_cast<uint64_t>(stride)) : 0;
  // index -> (seed, entry variant, cut point)
  long rest = sub;
  long total = 0;
  const Seed* seed = nullptr;
  int variant = 0;
  long cut = 0;
  for (auto& sd : g_corpus.seeds)
    {
      const long points = bytes ? (static_cast<long>(sd.text.size()) - phase + stride - 1) / stride : static_cast<long>(split_lines(sd.text).size());
      const long n = points * num_entry_variants(sd.family);
      total += n;
      if (!seed && rest < n)
        {
          seed = &sd;
          variant = static_cast<int>(rest / points);
          cut = bytes ? phase + (rest % points) * stride : rest % points;
        }
      else if (!seed)
        rest -= n;
    }
  ctx.desc.add("mode", "truncate").add("unit", bytes ? "byte" : "line").add("enumeration_size", total);
  if (sub == 0)
    ctx.count(bytes ? "byte_truncation_points_in_enumeration" : "line_truncation_points_in_enumeration", total);
  if (!seed)
    {
      ctx.count("truncate_indices_beyond_enumeration");
      return;
    }
  Input in;
  in.seed = seed;
  in.kinds = bytes ? "trunc-byte" : "trunc-line";
  in.entry_variant = variant;
  in.cls = seed->cls;
  in.path = input_path(*seed);
  if (bytes)
    in.text = seed->text.substr(0, static_cast<size_t>(cut));
  else
    {
      auto lines = split_lines(seed->text);
      lines.resize(static_cast<size_t>(cut));
      in.text = join_lines(lines);
    }
  const std::string entry = entry_name(seed->family, variant);
  ctx.desc.add("seed", seed->name).add("entry", entry).add("kept", cut).add("input_hash", hex_hash(in.text));
  spit(in.path, in.text);
  Result r = g_iso.run(ctx, entry + ":truncated-" + seed->family, seed->name + " truncated after " + std::to_string(cut) + (bytes ? " bytes" : " lines") + " through " + entry,
                       [&](Result& r1) {
                         std::string sig;
                         run_entry(r1, in, sig);
                         r1.text = sig;
                       });
  report_alloc(r, entry, in);
  report(ctx, r, in.text, "truncation of " + seed->name, seed);
  ctx.nontrivial = true;
  ctx.count(bytes ? "byte_truncations_run" : "line_truncations_run");
  if (r.complete && r.status == 1)
    ctx.count("truncated_inputs_accepted_and_consistent");
  else if (r.complete && r.status == 0)
    ctx.count("truncated_inputs_rejected");
}


// =====================================================================================================================
// mode "corpus": inputs found by the coverage-guided fuzzer (harness/c17_fuzz.cxx = this file with C17_LIBFUZZER: libFuzzer
// drives run_entry() in-process and is only the *generator*); every corpus file and every crash/oom/timeout artifact is judged
// here, by the same isolated-child oracle as a mutated input.  File format: "<seed name> <entry variant>\n" + text.
// =====================================================================================================================
const Seed*
seed_by_name(const std::string& n)
{
  for (auto& sd : g_corpus.seeds)
    if (sd.name == n)
      return &sd;
  return nullptr;
}

// splits a fuzzer input into (seed, variant, text); inputs without a valid first line are given one deterministically from their bytes
bool
split_fuzz_input(const std::string& raw, const Seed*& seed, int& variant, std::string& text)
{
  const size_t nl = raw.find('\n');
  if (nl != std::string::npos && nl < 80)
    {
      const std::string head = raw.substr(0, nl);
      const size_t sp = head.rfind(' ');
      if (sp != std::string::npos)
        {
          seed = seed_by_name(head.substr(0, sp));
          if (seed && sp + 2 == head.size() && head[sp + 1] >= '0' && head[sp + 1] <= '9')
            {
              variant = (head[sp + 1] - '0') % num_entry_variants(seed->family);
              text = raw.substr(nl + 1);
              return true;
            }
        }
    }
  // no usable header: choose by hash so that every byte string is an input (the fuzzer mutates headers too)
  const uint64_t h = vf::hash_str(raw.substr(0, std::min<size_t>(raw.size(), 16)));
  seed = &g_corpus.seeds[static_cast<size_t>(h % g_corpus.seeds.size())];
  variant = static_cast<int>((h >> 20) % static_cast<uint64_t>(num_entry_variants(seed->family)));
  text = raw;
  return false;
}

void
run_corpus_case(Ctx& ctx, long sub)
{
  build_corpus(ctx);
  static std::vector<std::string> files;
  static std::string dir;
  if (dir.empty())
    {
      const char* d = std::getenv("VERIF_C17_CORPUS");
      if (!d)
        throw std::runtime_error("mode corpus needs VERIF_C17_CORPUS");
      dir = d;
      if (DIR* dp = ::opendir(d))
        {
          while (dirent* e = ::readdir(dp))
            if (e->d_name[0] != '.')
              files.push_back(e->d_name);
          ::closedir(dp);
        }
      std::sort(files.begin(), files.end());
    }
  ctx.desc.add("mode", "corpus").add("corpus_files", static_cast<long>(files.size()));
  if (sub == 0)
    ctx.count("fuzz_corpus_files_in_enumeration", static_cast<long>(files.size()));
  if (sub >= static_cast<long>(files.size()))
    {
      ctx.count("corpus_indices_beyond_enumeration");
      return;
    }
  const std::string& fname = files[static_cast<size_t>(sub)];
  const std::string raw = slurp(dir + "/" + fname);
  Input in;
  const Seed* seed = nullptr;
  int variant = 0;
  const bool headed = split_fuzz_input(raw, seed, variant, in.text);
  in.seed = seed;
  in.entry_variant = variant;
  in.cls = seed->cls;
  in.path = input_path(*seed);
  const bool artifact = fname.compare(0, 6, "crash-") == 0 || fname.compare(0, 4, "oom-") == 0 || fname.compare(0, 8, "timeout-") == 0
                        || fname.compare(0, 5, "leak-") == 0;
  in.kinds = artifact ? "fuzzer-artifact" : "fuzzer-corpus";
  const std::string entry = entry_name(seed->family, variant);
  ctx.desc.add("file", fname).add("family", seed->family).add("seed", seed->name).add("entry", entry).add("input_bytes", static_cast<long>(in.text.size()))
      .add("input_hash", hex_hash(in.text));
  // which keyword differs from the seed, when it is a single line (names violations that come without a stack)
  {
    std::set<std::string> seed_lines;
    for (auto& l : split_lines(seed->text))
      seed_lines.insert(l);
    int nd = 0;
    std::string kw;
    for (auto& l : split_lines(in.text))
      if (!seed_lines.count(l))
        {
          ++nd;
          kw = ref_split(l).kw;
        }
    if (nd == 1)
      in.culprit = kw;
  }
  spit(in.path, in.text);
  Result r = g_iso.run(ctx, entry + ":" + (in.culprit.empty() ? std::string("no-single-key") : keyify(in.culprit)),
                       "fuzzer input " + fname + " (" + seed->name + ") through " + entry, [&](Result& r1) {
                         std::string sig;
                         run_entry(r1, in, sig);
                         r1.text = sig;
                       });
  report_alloc(r, entry, in);
  report(ctx, r, in.text, std::string(artifact ? "fuzzer artifact " : "fuzzer corpus input ") + fname, seed);
  ctx.nontrivial = true;
  ctx.count("fuzz_inputs_judged");
  ctx.count(artifact ? "fuzz_artifacts_judged" : "fuzz_corpus_inputs_judged");
  ctx.count("fuzz_inputs_" + seed->family);
  ctx.count("fuzz_entry_" + keyify(entry));
  if (!headed)
    ctx.count("fuzz_inputs_without_header_line");
  if (!r.complete && r.how != "stopped-by-arithmetic-overflow-report" && r.how != "cpu-budget-exceeded")
    ctx.count(r.viols.empty() ? "fuzz_children_died_after_harness_allocation_cap" : "fuzz_children_died");
  else if (!r.complete)
    ctx.count("fuzz_children_" + r.how);
  else if (r.status == 1)
    ctx.count("fuzz_inputs_accepted_and_consistent");
  else if (r.status == 0)
    ctx.count("fuzz_inputs_rejected");
}

void
run_case(Ctx& ctx)
{
  const char* m = std::getenv("VERIF_MODE");
  std::string mode = m ? m : "";
  long sub = ctx.idx;
  if (mode.empty())
    {
      // no mode given: interleave the three modes
      mode = ctx.idx % 10 == 0 ? "roundtrip" : ctx.idx % 10 == 1 ? "keywords" : "mutate";
      sub = ctx.idx / 10;
    }
  if (mode == "roundtrip")
    run_roundtrip_case(ctx, sub);
  else if (mode == "keywords")
    run_keywords_case(ctx, sub);
  else if (mode == "mutate")
    run_mutate_case(ctx);
  else if (mode == "truncate")
    run_truncate_case(ctx, sub);
  else if (mode == "corpus")
    run_corpus_case(ctx, sub);
  else
    throw std::runtime_error("unknown VERIF_MODE " + mode);
}
} // namespace

#ifndef C17_LIBFUZZER
int
main(int argc, char** argv)
{
  vg::quiet();
  return vf::verif_main(argc, argv, "C17", run_case);
}
#else
// ---------------------------------------------------------------------------------------------------------------------
// libFuzzer target (generator only, see mode "corpus").  VERIF_C17_FUZZ_TMP: scratch directory; VERIF_C17_FUZZ_EXPORT: directory
// that receives the corpus seeds x entry points as initial inputs and "dict.txt" (keywords and values of the seeds).
// ---------------------------------------------------------------------------------------------------------------------
namespace {
Ctx g_fuzz_ctx;
}
extern "C" int
LLVMFuzzerInitialize(int*, char***)
{
  vg::quiet();
  const char* t = std::getenv("VERIF_C17_FUZZ_TMP");
  g_fuzz_ctx.tmpdir = t ? t : "/var/tmp";
  g_fuzz_ctx.prop = "C17";
  build_corpus(g_fuzz_ctx);
  g_alloc.cap_fail = 256u << 20; // the generator refuses big requests (bad_alloc); the judge applies the 1 GiB rule
  if (const char* ex = std::getenv("VERIF_C17_FUZZ_EXPORT"))
    {
      std::set<std::string> dict;
      for (auto& sd : g_corpus.seeds)
        {
          for (int v = 0; v < num_entry_variants(sd.family); ++v)
            spit(std::string(ex) + "/seed_" + sd.name + "_" + std::to_string(v), sd.name + " " + std::to_string(v) + "\n" + sd.text);
          for (auto& l : split_lines(sd.text))
            {
              RefLine r = ref_split(l);
              if (r.is_assignment && !r.kw.empty() && r.kw.size() < 60)
                dict.insert(r.kw);
              if (r.is_assignment && !r.value.empty() && r.value.size() < 40)
                dict.insert(r.value);
            }
        }
      for (const char* w : { ":=", "[1]", "[2]", "[0]", "[-1]", "{", "}", ",", "\\\n", "!", "%", ";", "2147483647", "4294967296", "-1", "0", "1e30", "nan" })
        dict.insert(w);
      std::string d;
      for (auto& w : dict)
        {
          std::string e;
          bool ok = true;
          for (unsigned char c : w)
            {
              if (c == '"' || c == '\\')
                {
                  e += '\\';
                  e += static_cast<char>(c);
                }
              else if (c == '\n')
                e += "\\x0a";
              else if (c < 0x20 || c >= 0x7f)
                ok = false;
              else
                e += static_cast<char>(c);
            }
          if (ok && !e.empty())
            d += "\"" + e + "\"\n";
        }
      spit(std::string(ex) + "/../dict.txt", d);
    }
  return 0;
}

extern "C" int
LLVMFuzzerTestOneInput(const uint8_t* data, size_t size)
{
  if (size > 16384)
    return 0;
  const std::string raw(reinterpret_cast<const char*>(data), size);
  Input in;
  const Seed* seed = nullptr;
  int variant = 0;
  split_fuzz_input(raw, seed, variant, in.text);
  in.seed = seed;
  in.entry_variant = variant;
  in.cls = seed->cls;
  in.path = input_path(*seed);
  in.kinds = "fuzzer";
  try
    {
      spit(in.path, in.text);
      Result r;
      std::string sig;
      run_entry(r, in, sig);
    }
  catch (...)
    {}
  return 0;
}
#endif
