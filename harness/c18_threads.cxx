// C18: multi-threaded execution gives the single-thread result under every schedule (DESIGN.md §6 C18).
// tsan flavour: clang TSan + libomp + Archer.  The weak call-out stir_verif_point() is defined here:
// it logs events, perturbs the schedule (PCT-style priorities + change points) and tells TSan about the
// relaxed publish of the lazily built tables (release on the flag before it is written, acquire when it
// was read as true) -- the only assumption encoded, see DESIGN.md.
#include "common/verif.h"
#include "common/gen.h"
#include "stir/verif_hooks.h"
#include "stir/ProjDataInMemory.h"
#include "stir/ProjDataInterfile.h"
#include "stir/ProjData.h"
#include "stir/ExamInfo.h"
#include "stir/ProjDataInfoCylindricalNoArcCorr.h"
#include "stir/DetectionPositionPair.h"
#include "stir/recon_buildblock/ProjMatrixByBinUsingRayTracing.h"
#include "stir/recon_buildblock/ProjMatrixElemsForOneBin.h"
#include "stir/recon_buildblock/ForwardProjectorByBinUsingProjMatrixByBin.h"
#include "stir/recon_buildblock/BackProjectorByBinUsingProjMatrixByBin.h"
#include "stir/recon_buildblock/ProjectorByBinPairUsingProjMatrixByBin.h"
#include "stir/recon_buildblock/PoissonLogLikelihoodWithLinearModelForMeanAndProjData.h"
#include "stir/recon_buildblock/BinNormalisationFromProjData.h"
#include "stir/recon_buildblock/TrivialBinNormalisation.h"
#include "stir/scatter/SingleScatterSimulation.h"
#include "stir/Shape/EllipsoidalCylinder.h"
#include "stir/num_threads.h"
#include <omp.h>
#include <atomic>
#include <mutex>
#include <thread>
#include <chrono>
#include <pthread.h>

using namespace stir;
using vf::Ctx;
typedef DiscretisedDensity<3, float> target_type;

// ------------------------------------------------------------------ TSan interface (present only in the tsan flavour)
#if defined(__has_feature)
#  if __has_feature(thread_sanitizer)
#    define VERIF_TSAN 1
#  endif
#endif
#ifdef VERIF_TSAN
extern "C" void __tsan_acquire(void* addr);
extern "C" void __tsan_release(void* addr);
extern "C" void AnnotateBenignRaceSized(const char* f, int l, const volatile void* mem, size_t size, const char* desc);
static std::atomic<long> g_tsan_reports{ 0 };
extern "C" void
__tsan_on_report(void*)
{
  g_tsan_reports.fetch_add(1);
}
#else
static std::atomic<long> g_tsan_reports{ 0 };
#endif

// ------------------------------------------------------------------ hook runtime
namespace hk {
static const int MAXT = 64;
struct PerThread
{
  std::atomic<int> last_site{ 0 };
  long counts[64] = { 0 };
  long cache_hits = 0; // PMCACHE_LOOKUP events with a == 1
  std::vector<std::pair<long, long>> dist_log; // (a,b) of DIST_VIEWGRAM
  uint64_t rng = 0x1234567;
  int budget = 0;
  char pad[64];
};
static PerThread T[MAXT];
static std::atomic<bool> perturb{ false };
static std::atomic<uint64_t> run_seed{ 1 };
static std::atomic<int> low_prio_mask{ 0 }; // bit t set: thread t is "low priority" now
static std::atomic<long> events_total{ 0 };
static std::atomic<long> lazy_built_by[4] = { { -1 }, { -1 }, { -1 }, { -1 } };
static std::atomic<long> max_concurrency{ 0 };
static std::atomic<uint64_t> signature{ 0 }; // order-sensitive hash of (site,thread) at first-use and cache-insert sites
static std::mutex benign_mx;
static std::set<const void*> benign_done;

inline int
tid()
{
  const int t = omp_get_thread_num();
  return t < MAXT ? t : MAXT - 1;
}
inline uint64_t
next(uint64_t& s)
{
  s ^= s << 13;
  s ^= s >> 7;
  s ^= s << 17;
  return s;
}
static void
reset(uint64_t seed, bool do_perturb, int nthreads)
{
  for (int i = 0; i < MAXT; ++i)
    {
      T[i].last_site = 0;
      std::fill(std::begin(T[i].counts), std::end(T[i].counts), 0L);
      T[i].cache_hits = 0;
      T[i].dist_log.clear();
      T[i].rng = vf::mix3(seed, static_cast<uint64_t>(i), 99) | 1;
      T[i].budget = 40;
    }
  run_seed = seed;
  uint64_t s = seed | 1;
  int mask = 0;
  for (int i = 0; i < nthreads && i < 31; ++i)
    if (next(s) % 3 == 0)
      mask |= 1 << i;
  low_prio_mask = mask;
  for (auto& b : lazy_built_by)
    b = -1;
  max_concurrency = 0;
  signature = 0;
  perturb = do_perturb;
}
static void
maybe_delay(PerThread& p, int t, int strength)
{
  if (!perturb.load(std::memory_order_relaxed) || p.budget <= 0)
    return;
  const uint64_t r = next(p.rng);
  const bool low = (low_prio_mask.load(std::memory_order_relaxed) >> (t & 31)) & 1;
  // low-priority threads are delayed often, others rarely (change points)
  if ((low && r % 2 == 0) || (!low && r % 11 == 0))
    {
      --p.budget;
      const unsigned us = static_cast<unsigned>((r >> 8) % (strength * 400u)) + 20u;
      if ((r >> 40) % 4 == 0)
        sched_yield();
      else
        std::this_thread::sleep_for(std::chrono::microseconds(us));
    }
}
} // namespace hk

extern "C" void
stir_verif_point(int site, const void* obj, long a, long b)
{
  using namespace hk;
  const int t = tid();
  PerThread& p = T[t];
  p.last_site.store(site, std::memory_order_relaxed);
  if (site < 64)
    ++p.counts[site];
  switch (site)
    {
    case STIR_VERIF_LAZY_BEFORE_READ:
#ifdef VERIF_TSAN
      if (a == 0)
        {
          // ring_diff_arrays_computed is stored with a plain store and read with an atomic read: declared benign for that byte
          std::lock_guard<std::mutex> g(benign_mx);
          if (benign_done.insert(obj).second)
            AnnotateBenignRaceSized(__FILE__, __LINE__, obj, 1, "ring_diff_arrays_computed flag byte (relaxed publish policy)");
        }
#endif
      if (p.counts[site] < 6)
        maybe_delay(p, t, 2);
      break;
    case STIR_VERIF_LAZY_READ_TRUE:
#ifdef VERIF_TSAN
      __tsan_acquire(const_cast<void*>(obj));
#endif
      break;
    case STIR_VERIF_LAZY_IN_CRITICAL:
      // delay the (potential) builder inside the critical section *before* it builds: this is what lets a second
      // thread get in when the critical section is missing
      maybe_delay(p, t, 6);
      break;
    case STIR_VERIF_LAZY_BUILD_START:
      if (a >= 0 && a < 4)
        {
          long exp = -1;
          lazy_built_by[a].compare_exchange_strong(exp, t);
        }
      signature = vf::mix3(signature.load(), static_cast<uint64_t>(site), static_cast<uint64_t>(t));
      break;
    case STIR_VERIF_LAZY_BEFORE_FLAG_WRITE:
      maybe_delay(p, t, 4);
#ifdef VERIF_TSAN
      __tsan_release(const_cast<void*>(obj));
#endif
      if (a >= 1 && a < 4)
        {
          long exp = -1;
          lazy_built_by[a].compare_exchange_strong(exp, t);
        }
      signature = vf::mix3(signature.load(), static_cast<uint64_t>(site * 8 + a), static_cast<uint64_t>(t));
      break;
    case STIR_VERIF_LAZY_AFTER_FLAG_WRITE:
      maybe_delay(p, t, 2);
      break;
    case STIR_VERIF_PMCACHE_LOOKUP:
      if (a == 1)
        ++p.cache_hits;
      break;
    case STIR_VERIF_PMCACHE_BEFORE_LOCK:
      if (p.counts[site] % 64 == 1)
        maybe_delay(p, t, 1);
      break;
    case STIR_VERIF_PMCACHE_INSERTED:
      if (p.counts[site] < 20)
        signature = vf::mix3(signature.load(), static_cast<uint64_t>(a * 64 + b), static_cast<uint64_t>(t));
      break;
    case STIR_VERIF_BP_LOCALIMG_CREATE:
      maybe_delay(p, t, 4);
      signature = vf::mix3(signature.load(), static_cast<uint64_t>(site), static_cast<uint64_t>(t));
      break;
    case STIR_VERIF_BP_BEFORE_GET_VIEWGRAMS:
    case STIR_VERIF_FP_BEFORE_SET_VIEWGRAMS:
      maybe_delay(p, t, 2);
      break;
    case STIR_VERIF_DIST_VIEWGRAM:
      p.dist_log.push_back({ a, b });
      maybe_delay(p, t, 3);
      {
        const long n = omp_get_num_threads();
        long cur = max_concurrency.load();
        while (n > cur && !max_concurrency.compare_exchange_weak(cur, n))
          {
          }
      }
      break;
    case STIR_VERIF_SCAT_CACHE_WRITE:
      if (p.counts[site] % 32 == 1)
        maybe_delay(p, t, 1);
      break;
    default:
      break;
    }
}

static long
hook_count(int site)
{
  long n = 0;
  for (auto& t : hk::T)
    n += t.counts[site];
  return n;
}
static std::vector<std::pair<long, long>>
dist_log_sorted()
{
  std::vector<std::pair<long, long>> v;
  for (auto& t : hk::T)
    v.insert(v.end(), t.dist_log.begin(), t.dist_log.end());
  std::sort(v.begin(), v.end());
  return v;
}

// ------------------------------------------------------------------ hang watchdog (pthread, not an OpenMP thread)
static std::atomic<long> wd_case{ -1 };
static std::atomic<long> wd_deadline_s{ 0 };
static Ctx* wd_ctx = nullptr;
static void
watchdog()
{
  for (;;)
    {
      std::this_thread::sleep_for(std::chrono::seconds(2));
      const long dl = wd_deadline_s.load();
      if (dl > 0 && std::chrono::duration_cast<std::chrono::seconds>(std::chrono::steady_clock::now().time_since_epoch()).count() > dl)
        {
          std::string sites;
          for (int i = 0; i < 32; ++i)
            if (hk::T[i].last_site.load())
              sites += std::to_string(hk::T[i].last_site.load()) + ".";
          // deduplicate the key: the set of sites threads were last seen at
          std::set<int> ss;
          for (int i = 0; i < 32; ++i)
            if (hk::T[i].last_site.load())
              ss.insert(hk::T[i].last_site.load());
          std::string key = "hang:sites";
          for (int s : ss)
            key += "-" + std::to_string(s);
          if (wd_ctx)
            wd_ctx->violation(key, "no progress within the watchdog budget; last hook site per thread: " + sites);
          std::_Exit(0);
        }
    }
}
static void
arm(Ctx& ctx, long seconds)
{
  wd_ctx = &ctx;
  wd_deadline_s = std::chrono::duration_cast<std::chrono::seconds>(std::chrono::steady_clock::now().time_since_epoch()).count() + seconds;
}
static void
disarm()
{
  wd_deadline_s = 0;
}

// ------------------------------------------------------------------ data helpers
static shared_ptr<ProjDataInMemory>
make_data(const shared_ptr<const ProjDataInfo>& pdi, vf::Rng& rng, double lo, double hi, bool integer = false)
{
  shared_ptr<ExamInfo> ei(new ExamInfo(ImagingModality::PT));
  shared_ptr<ProjDataInMemory> pd(new ProjDataInMemory(ei, pdi->create_shared_clone()));
  for (int s = pd->get_min_segment_num(); s <= pd->get_max_segment_num(); ++s)
    for (int k = pd->get_min_tof_pos_num(); k <= pd->get_max_tof_pos_num(); ++k)
      {
        SegmentByView<float> seg = pd->get_empty_segment_by_view(s, false, k);
        for (auto it = seg.begin_all(); it != seg.end_all(); ++it)
          *it = integer ? static_cast<float>(rng.poisson(rng.uniform(lo, hi))) : static_cast<float>(rng.uniform(lo, hi));
        pd->set_segment(seg);
      }
  return pd;
}
// File-backed copy of `src`: written as Interfile into the case's temp directory, then re-opened through
// ProjData::read_from_file (a ProjDataFromStream on an fstream shared by all threads, the storage users reconstruct from).
// Returns null when the sampling does not survive the Interfile header (TOF mashed to one position, see DESIGN 9.2 C02).
static long g_file_counter = 0;
static shared_ptr<ProjData>
file_backed(Ctx& ctx, const ProjData& src, const shared_ptr<ProjDataInfo>& pdi, bool by_sinogram, bool writable)
{
  const std::string base = ctx.tmpdir + "/c18_" + std::to_string(ctx.idx) + "_" + std::to_string(++g_file_counter);
  {
    shared_ptr<ExamInfo> ei(new ExamInfo(ImagingModality::PT));
    ProjDataInterfile out(ei, pdi, base + ".hs", std::ios::out,
                          // (the Interfile writer supports TOF data in by-view order only)
                          by_sinogram && pdi->get_num_tof_poss() == 1 ? ProjDataFromStream::Segment_AxialPos_View_TangPos
                                                                        : ProjDataFromStream::Segment_View_AxialPos_TangPos);
    out.fill(src);
  }
  shared_ptr<ProjData> in = ProjData::read_from_file(base + ".hs", writable ? (std::ios::in | std::ios::out) : std::ios::in);
  if (!in || !(*in->get_proj_data_info_sptr() == *pdi))
    return shared_ptr<ProjData>();
  return in;
}

static shared_ptr<VoxelsOnCartesianGrid<float>>
make_fov_image(const shared_ptr<const ProjDataInfo>& pdi, vf::Rng& rng, bool fill)
{
  shared_ptr<ExamInfo> ei(new ExamInfo(ImagingModality::PT));
  shared_ptr<VoxelsOnCartesianGrid<float>> im(
      new VoxelsOnCartesianGrid<float>(ei, *pdi, 1.F, CartesianCoordinate3D<float>(0, 0, 0)));
  BasicCoordinate<3, int> mn, mx;
  if (im->get_regular_range(mn, mx))
    {
      for (int d = 2; d <= 3; ++d)
        {
          mn[d] = std::min(mn[d], -mx[d]);
          mx[d] = std::max(-mn[d], mx[d]);
        }
      im->grow(IndexRange<3>(mn, mx));
    }
  if (fill)
    vg::fill_random(*im, rng, 0.1, 1.0);
  return im;
}

struct Geo
{
  vg::ScannerSpec ss;
  vg::PdiSpec ps;
  shared_ptr<Scanner> sc;
  shared_ptr<ProjDataInfo> pdi;
};
static Geo
gen_geo(Ctx& ctx, bool allow_tof)
{
  Geo g;
  vg::ScannerOpts so;
  so.min_det = 12;
  so.max_det = ctx.thorough() ? 32 : 24;
  so.min_rings = 1;
  so.max_rings = 3;
  so.p_tof = allow_tof ? 0.3 : 0.0;
  so.allow_tilt = false;
  g.ss = vg::gen_scanner(ctx.rng, so);
  g.ss.tilt = 0;
  if (g.ss.tof_bins > 5)
    g.ss.tof_bins = 5;
  vg::PdiOpts po;
  po.allow_even_span = false;
  po.allow_ge = false;
  po.allow_reduce = false;
  po.allow_view_mash = false;
  po.allow_tang_truncation = false;
  g.ps = vg::gen_pdi(ctx.rng, g.ss, po);
  if (g.ss.tof_bins > 0 && g.ps.tof_mash > 1)
    g.ps.tof_mash = 1;
  try
    {
      g.sc = vg::make_scanner(g.ss);
      g.pdi = vg::make_pdi(g.sc, g.ps, &ctx.rng);
    }
  catch (const std::exception& e)
    {
      throw vf::Skip(std::string("geometry rejected: ") + e.what());
    }
  ctx.desc.add("scanner", g.ss.desc()).add("pdi", g.ps.desc());
  return g;
}

template <class A>
static bool
same_bits(const A& a, const A& b)
{
  auto ia = a.begin_all_const();
  auto ib = b.begin_all_const();
  for (; ia != a.end_all_const(); ++ia, ++ib)
    if (!(*ia == *ib) && !(std::isnan(*ia) && std::isnan(*ib)))
      return false;
  return true;
}
static bool
projdata_equal(const ProjDataInMemory& a, const ProjDataInMemory& b, std::string& where)
{
  auto ia = a.begin();
  auto ib = b.begin();
  long n = 0;
  for (; ia != a.end(); ++ia, ++ib, ++n)
    if (!(*ia == *ib))
      {
        where = vf::fmt("element %ld: %.9g vs %.9g", n, static_cast<double>(*ia), static_cast<double>(*ib));
        return false;
      }
  return true;
}
// images: multi-thread sums are a reassociation of the single-thread ones: band from sum of |terms| is not available here,
// so we use the image-wide scale: n_threads * eps32 * (max |value|) * log-ish factor.  A lost/duplicated contribution of any
// viewgram changes voxels by >= one matrix element times a datum, orders of magnitude above this.
static bool
images_close(const target_type& a, const target_type& b, int nthreads, double terms_per_voxel, std::string& where)
{
  double mx = 0;
  for (auto it = a.begin_all_const(); it != a.end_all_const(); ++it)
    mx = std::max(mx, static_cast<double>(std::fabs(*it)));
  const double band = 8.0 * (terms_per_voxel + nthreads + 2) * vf::EPS32 * mx + 1e-30;
  auto ia = a.begin_all_const();
  auto ib = b.begin_all_const();
  long n = 0;
  for (; ia != a.end_all_const(); ++ia, ++ib, ++n)
    if (!(std::fabs(static_cast<double>(*ia) - *ib) <= band))
      {
        where = vf::fmt("voxel %ld: %.9g (1 thread) vs %.9g (%d threads), band %.3g, max %.3g", n, static_cast<double>(*ia),
                        static_cast<double>(*ib), nthreads, band, mx);
        return false;
      }
  return true;
}

static void
check_tsan(Ctx& ctx, long before, const char* workload)
{
  const long now = g_tsan_reports.load();
  ctx.count("tsan_reports", now - before);
  (void)workload;
}

static int
pick_threads(Ctx& ctx, int work_items)
{
  static const std::vector<int> tn = { 2, 3, 4, 6, 8, 12, 16 };
  int t = ctx.rng.pick(tn);
  if (ctx.rng.coin(0.15))
    t = std::min(16, work_items + static_cast<int>(ctx.rng.range(1, 4))); // more threads than work items
  return std::max(2, t);
}

// ------------------------------------------------------------------ workloads
// W0: lazy tables used concurrently from the first call on
static void
w_lazy(Ctx& ctx)
{
  Geo g = gen_geo(ctx, true);
  const int N = g.ss.ndet, R = g.ss.nrings;
  const int nth = pick_threads(ctx, N);
  ctx.desc.add("workload", "lazy_tables").add("threads", nth);
  ctx.heartbeat("lazy");
  // A freshly constructed object has its ring-difference tables built by the constructor; only the detector-pair tables are built at
  // first use.  The public setters that invalidate the ring-difference tables are therefore called with the value the object
  // already has (geometry unchanged, tables re-armed), so that their first use happens inside the parallel region as well - as
  // for an object that was just narrowed by reduce_segment_range() / set_max_axial_pos_num() in an application.
  const int rearm = static_cast<int>(ctx.rng.range(0, 4));
  ctx.desc.add("rearm_ring_tables", rearm == 0 ? "no" : rearm == 1 ? "set_ring_spacing" : rearm == 2 ? "set_min_ring_difference" : rearm == 3 ? "set_max_axial_pos_num" : "reduce_segment_range");
  auto fresh = [&]() {
    auto p = dynamic_pointer_cast<ProjDataInfoCylindricalNoArcCorr>(vg::make_pdi(g.sc, g.ps));
    if (p)
      switch (rearm)
        {
        case 1:
          p->set_ring_spacing(p->get_ring_spacing());
          break;
        case 2:
          p->set_min_ring_difference(p->get_min_ring_difference(0), 0);
          break;
        case 3:
          p->set_max_axial_pos_num(p->get_max_axial_pos_num(0), 0);
          break;
        case 4:
          p->reduce_segment_range(p->get_min_segment_num(), p->get_max_segment_num());
          break;
        default:
          break;
        }
    return p;
  };
  if (rearm)
    ctx.count("lazy_cases_with_ring_tables_rearmed");
  // single-thread reference on its own fresh object
  omp_set_num_threads(1);
  hk::reset(ctx.seed + static_cast<uint64_t>(ctx.idx), false, 1);
  auto ref_pdi = fresh();
  if (!ref_pdi)
    throw vf::Skip("not a cylindrical no-arc-corr geometry");
  struct Out
  {
    int s, a, v, t, k, ok;
    bool operator==(const Out& o) const { return s == o.s && a == o.a && v == o.v && t == o.t && k == o.k && ok == o.ok; }
  };
  const long npairs = static_cast<long>(N) * N;
  std::vector<Out> ref(static_cast<size_t>(npairs));
  auto eval = [&](const ProjDataInfoCylindricalNoArcCorr& p, long i) -> Out {
    const int d1 = static_cast<int>(i / N), d2 = static_cast<int>(i % N);
    if (d1 == d2)
      return Out{ 0, 0, 0, 0, 0, -1 };
    const int r1 = static_cast<int>(i % R), r2 = static_cast<int>((i / 3) % R);
    DetectionPositionPair<> dp(DetectionPosition<>(d1, r1, 0), DetectionPosition<>(d2, r2, 0), 0);
    Bin b;
    const int ok = p.get_bin_for_det_pos_pair(b, dp) == Succeeded::yes ? 1 : 0;
    Out o{ b.segment_num(), b.axial_pos_num(), b.view_num(), b.tangential_pos_num(), b.timing_pos_num(), ok };
    if (ok && b.tangential_pos_num() >= p.get_min_tangential_pos_num() && b.tangential_pos_num() <= p.get_max_tangential_pos_num()
        && b.axial_pos_num() >= p.get_min_axial_pos_num(b.segment_num()) && b.axial_pos_num() <= p.get_max_axial_pos_num(b.segment_num()))
      {
        // also use the inverse tables and the ring-pair tables
        o.ok += static_cast<int>(p.get_num_det_pos_pairs_for_bin(b)) * 2;
        o.k += static_cast<int>(std::lround(1000 * p.get_m(b)));
      }
    return o;
  };
  for (long i = 0; i < npairs; ++i)
    ref[static_cast<size_t>(i)] = eval(*ref_pdi, i);
  const int reps = ctx.thorough() ? 12 : 6;
  for (int rep = 0; rep < reps; ++rep)
    {
      const long before = g_tsan_reports.load();
      auto p = fresh(); // re-arms every first-use race
      std::vector<Out> got(static_cast<size_t>(npairs));
      omp_set_num_threads(nth);
      hk::reset(vf::mix3(ctx.seed, static_cast<uint64_t>(ctx.idx), static_cast<uint64_t>(rep)), true, nth);
      arm(ctx, 600);
#pragma omp parallel for schedule(dynamic, 1)
      for (long i = 0; i < npairs; ++i)
        got[static_cast<size_t>(i)] = eval(*p, i);
      disarm();
      omp_set_num_threads(1);
      ctx.count("lazy_runs");
      ctx.count("lazy_first_use_events", hook_count(STIR_VERIF_LAZY_IN_CRITICAL));
      ctx.count("lazy_read_true_events", hook_count(STIR_VERIF_LAZY_READ_TRUE));
      ctx.sub_eval(hk::signature.load(), true);
      check_tsan(ctx, before, "lazy");
      for (long i = 0; i < npairs; ++i)
        if (!(got[static_cast<size_t>(i)] == ref[static_cast<size_t>(i)]))
          {
            ctx.violation("lazy-tables:concurrent-result-differs-from-single-thread",
                          vf::fmt("pair index %ld, %d threads, repetition %d", i, nth, rep));
            return;
          }
    }
  ctx.nontrivial = true;
}

// W1: concurrent use of the system-matrix cache from the first call on (harness-side parallel loop)
static void
w_cache(Ctx& ctx)
{
  Geo g = gen_geo(ctx, false);
  auto image = make_fov_image(g.pdi, ctx.rng, false);
  std::vector<Bin> bins;
  for (int s = g.pdi->get_min_segment_num(); s <= g.pdi->get_max_segment_num(); ++s)
    for (int a = g.pdi->get_min_axial_pos_num(s); a <= g.pdi->get_max_axial_pos_num(s); ++a)
      for (int v = g.pdi->get_min_view_num(); v <= g.pdi->get_max_view_num(); ++v)
        for (int t = g.pdi->get_min_tangential_pos_num(); t <= g.pdi->get_max_tangential_pos_num(); ++t)
          bins.push_back(Bin(s, v, a, t));
  // repeat some bins so that hits and inserts interleave
  const size_t n0 = bins.size();
  for (size_t i = 0; i < n0; i += 2)
    bins.push_back(bins[i]);
  ctx.rng.shuffle(bins);
  const int nth = pick_threads(ctx, static_cast<int>(bins.size()));
  const bool only_basic = ctx.rng.coin();
  ctx.desc.add("workload", "matrix_cache").add("threads", nth).add("bins", static_cast<long>(bins.size())).add("store_only_basic", only_basic);
  ctx.heartbeat("cache");
  auto make_matrix = [&](bool cache) {
    shared_ptr<ProjMatrixByBinUsingRayTracing> m(new ProjMatrixByBinUsingRayTracing());
    m->enable_cache(cache);
    m->store_only_basic_bins_in_cache(only_basic);
    m->set_up(g.pdi, image);
    return m;
  };
  auto rowhash = [](const ProjMatrixElemsForOneBin& row) {
    std::vector<std::tuple<int, int, int, float>> e;
    for (auto it = row.begin(); it != row.end(); ++it)
      e.push_back(std::make_tuple(it->coord1(), it->coord2(), it->coord3(), it->get_value()));
    std::sort(e.begin(), e.end());
    uint64_t h = 7;
    for (auto& x : e)
      {
        float f = std::get<3>(x);
        uint32_t u;
        std::memcpy(&u, &f, 4);
        h = vf::mix3(h, static_cast<uint64_t>(std::get<0>(x) * 1000003 + std::get<1>(x) * 1009 + std::get<2>(x)), u);
      }
    return h;
  };
  shared_ptr<ProjMatrixByBinUsingRayTracing> mref;
  try
    {
      omp_set_num_threads(1);
      hk::reset(1, false, 1);
      mref = make_matrix(false);
    }
  catch (const std::exception& e)
    {
      throw vf::Skip(std::string("matrix set_up rejected: ") + e.what());
    }
  std::vector<uint64_t> ref(bins.size());
  for (size_t i = 0; i < bins.size(); ++i)
    {
      ProjMatrixElemsForOneBin row;
      mref->get_proj_matrix_elems_for_one_bin(row, bins[i]);
      ref[i] = rowhash(row);
    }
  const int reps = ctx.thorough() ? 8 : 4;
  for (int rep = 0; rep < reps; ++rep)
    {
      const long before = g_tsan_reports.load();
      auto m = make_matrix(true);
      std::vector<uint64_t> got(bins.size());
      omp_set_num_threads(nth);
      hk::reset(vf::mix3(ctx.seed, static_cast<uint64_t>(ctx.idx), static_cast<uint64_t>(rep)), true, nth);
      arm(ctx, 600);
#pragma omp parallel for schedule(dynamic, 1)
      for (long i = 0; i < static_cast<long>(bins.size()); ++i)
        {
          ProjMatrixElemsForOneBin row;
          m->get_proj_matrix_elems_for_one_bin(row, bins[static_cast<size_t>(i)]);
          got[static_cast<size_t>(i)] = rowhash(row);
        }
      disarm();
      omp_set_num_threads(1);
      ctx.count("cache_runs");
      {
        long h = 0;
        for (auto& t : hk::T)
          h += t.cache_hits;
        ctx.count("cache_hits", h);
      }
      ctx.count("cache_inserts", hook_count(STIR_VERIF_PMCACHE_INSERTED));
      ctx.count("cache_lookups", hook_count(STIR_VERIF_PMCACHE_LOOKUP));
      ctx.sub_eval(hk::signature.load(), true);
      check_tsan(ctx, before, "cache");
      for (size_t i = 0; i < bins.size(); ++i)
        if (got[i] != ref[i])
          {
            ctx.violation("matrix-cache:concurrent-row-differs-from-uncached-single-thread",
                          vf::fmt("bin seg %d ax %d view %d tang %d, %d threads", bins[i].segment_num(), bins[i].axial_pos_num(),
                                  bins[i].view_num(), bins[i].tangential_pos_num(), nth));
            return;
          }
    }
  ctx.nontrivial = true;
}

// W2: whole-data forward and back projection
static void
w_project(Ctx& ctx)
{
  Geo g = gen_geo(ctx, true);
  auto image = make_fov_image(g.pdi, ctx.rng, true);
  auto data = make_data(g.pdi, ctx.rng, 0.0, 2.0);
  const int work = (g.pdi->get_num_views()) * g.pdi->get_num_segments() * g.pdi->get_num_tof_poss();
  const int nth = pick_threads(ctx, work);
  const int num_subsets = ctx.rng.coin(0.3) ? 2 : 1;
  const int subset = static_cast<int>(ctx.rng.range(0, num_subsets - 1));
  const int storage = static_cast<int>(ctx.rng.range(0, 2)); // 0 memory, 1 Interfile by view, 2 Interfile by sinogram
  ctx.desc.add("workload", "forward_back").add("threads", nth).add("num_subsets", num_subsets).add("storage", storage);
  ctx.heartbeat("project");
  if (g.pdi->get_num_views() % num_subsets)
    throw vf::Skip("views not divisible");
  auto run = [&](int threads, bool perturb_it, uint64_t seed, shared_ptr<ProjDataInMemory>& fwd_out,
                 shared_ptr<VoxelsOnCartesianGrid<float>>& bck_out) {
    omp_set_num_threads(threads);
    hk::reset(seed, perturb_it, threads);
    shared_ptr<ProjMatrixByBin> m(new ProjMatrixByBinUsingRayTracing());
    shared_ptr<ForwardProjectorByBin> fp(new ForwardProjectorByBinUsingProjMatrixByBin(m));
    shared_ptr<BackProjectorByBin> bp(new BackProjectorByBinUsingProjMatrixByBin(m));
    // a fresh geometry object so that its lazy tables are built inside the parallel region
    vg::PdiSpec ps = g.ps;
    shared_ptr<ProjDataInfo> pdi = vg::make_pdi(g.sc, ps);
    fp->set_up(pdi, image);
    bp->set_up(pdi, image);
    shared_ptr<ExamInfo> ei(new ExamInfo(ImagingModality::PT));
    fwd_out.reset(new ProjDataInMemory(ei, pdi));
    fwd_out->fill(-7.F);
    shared_ptr<ProjData> fwd_file, bck_file;
    if (storage != 0)
      {
        fwd_file = file_backed(ctx, *fwd_out, pdi, storage == 2, true);
        bck_file = file_backed(ctx, *data, pdi, storage == 2, false);
      }
    if (fwd_file && bck_file)
      {
        // all threads write their viewgrams into / read them from one shared stream
        fp->forward_project(*fwd_file, *image, subset, num_subsets, true);
        fwd_out->fill(*fwd_file);
        bck_out.reset(image->get_empty_copy());
        bp->back_project(*bck_out, *bck_file, subset, num_subsets);
        ctx.count(threads > 1 ? "project_runs_file_backed" : "project_reference_runs_file_backed");
      }
    else
      {
        fp->forward_project(*fwd_out, *image, subset, num_subsets, true);
        bck_out.reset(image->get_empty_copy());
        bp->back_project(*bck_out, *data, subset, num_subsets);
      }
    omp_set_num_threads(1);
  };
  shared_ptr<ProjDataInMemory> f1, fn;
  shared_ptr<VoxelsOnCartesianGrid<float>> b1, bn;
  try
    {
      run(1, false, 1, f1, b1);
    }
  catch (const std::exception& e)
    {
      throw vf::Skip(std::string("projector set_up rejected: ") + e.what());
    }
  const long single_events = hook_count(STIR_VERIF_PMCACHE_LOOKUP);
  const int reps = ctx.thorough() ? 6 : 3;
  for (int rep = 0; rep < reps; ++rep)
    {
      const long before = g_tsan_reports.load();
      arm(ctx, 900);
      run(nth, true, vf::mix3(ctx.seed, static_cast<uint64_t>(ctx.idx), static_cast<uint64_t>(rep)), fn, bn);
      disarm();
      ctx.count("project_runs");
      ctx.count("bp_local_images_created", hook_count(STIR_VERIF_BP_LOCALIMG_CREATE));
      ctx.count("bp_reduce_events", hook_count(STIR_VERIF_BP_REDUCE));
      ctx.sub_eval(hk::signature.load(), true);
      check_tsan(ctx, before, "project");
      std::string where;
      if (!projdata_equal(*f1, *fn, where))
        {
          ctx.violation("forward-projection:multi-thread-differs-from-single-thread", where + vf::fmt(", %d threads", nth));
          return;
        }
      const double terms = static_cast<double>(g.pdi->get_num_views()) * g.pdi->get_num_tangential_poss() * g.pdi->get_num_segments();
      if (!images_close(*b1, *bn, nth, terms, where))
        {
          ctx.violation("back-projection:multi-thread-differs-from-single-thread", where);
          return;
        }
    }
  (void)single_events;
  ctx.nontrivial = true;
}

// W3: log-likelihood value, gradient, sensitivity, Hessian products through distributable_computation
static void
w_objective(Ctx& ctx)
{
  Geo g = gen_geo(ctx, true);
  auto image = make_fov_image(g.pdi, ctx.rng, true);
  auto data = make_data(g.pdi, ctx.rng, 0.5, 6.0, true);
  auto add = make_data(g.pdi, ctx.rng, 0.1, 0.5);
  shared_ptr<ProjDataInMemory> mult = make_data(g.pdi->create_non_tof_clone(), ctx.rng, 0.5, 2.0);
  const bool use_add = ctx.rng.coin(), use_norm = ctx.rng.coin();
  int num_subsets = 1;
  {
    std::vector<int> ok;
    for (int s : { 1, 2, 3, 4 })
      if (g.pdi->get_num_views() % s == 0 && g.pdi->get_num_views() / s >= 1)
        ok.push_back(s);
    num_subsets = ctx.rng.pick(ok);
  }
  const int subset = static_cast<int>(ctx.rng.range(0, num_subsets - 1));
  const int work = g.pdi->get_num_views() / num_subsets * g.pdi->get_num_tof_poss();
  const int nth = pick_threads(ctx, work);
  const int storage = static_cast<int>(ctx.rng.range(0, 2)); // 0 memory, 1 Interfile by view, 2 Interfile by sinogram
  ctx.desc.add("workload", "objective").add("threads", nth).add("num_subsets", num_subsets).add("additive", use_add).add("norm", use_norm)
      .add("storage", storage);
  ctx.heartbeat("objective");
  struct Res
  {
    double value;
    shared_ptr<target_type> grad, sens, hess, ahess;
    std::vector<std::pair<long, long>> log;
  };
  auto run = [&](int threads, bool perturb_it, uint64_t seed) -> Res {
    omp_set_num_threads(threads);
    set_num_threads(threads);
    hk::reset(seed, perturb_it, threads);
    PoissonLogLikelihoodWithLinearModelForMeanAndProjData<target_type> obj;
    vg::PdiSpec ps = g.ps;
    shared_ptr<ProjDataInfo> pdi = vg::make_pdi(g.sc, ps); // fresh lazy tables
    shared_ptr<ExamInfo> ei(new ExamInfo(ImagingModality::PT));
    shared_ptr<ProjDataInMemory> y(new ProjDataInMemory(ei, pdi));
    y->fill(*data);
    // measured data (and additive term) either in memory or on file: the Hessian loops read viewgrams from the data
    // object inside their parallel region without any lock of their own
    shared_ptr<ProjData> y_file, a_file;
    if (storage != 0)
      {
        y_file = file_backed(ctx, *y, pdi, storage == 2, false);
        if (use_add)
          a_file = file_backed(ctx, *add, pdi, storage == 2, false);
      }
    const bool on_file = y_file && (!use_add || a_file);
    if (on_file)
      {
        obj.set_proj_data_sptr(y_file);
        ctx.count(threads > 1 ? "objective_runs_file_backed" : "objective_reference_runs_file_backed");
      }
    else
      obj.set_proj_data_sptr(y);
    obj.set_use_subset_sensitivities(true);
    shared_ptr<ProjMatrixByBin> m(new ProjMatrixByBinUsingRayTracing());
    shared_ptr<ProjectorByBinPair> pp(new ProjectorByBinPairUsingProjMatrixByBin(m));
    obj.set_projector_pair_sptr(pp);
    if (use_add)
      {
        shared_ptr<ProjDataInMemory> a(new ProjDataInMemory(ei, pdi));
        a->fill(*add);
        if (on_file)
          obj.set_additive_proj_data_sptr(a_file);
        else
          obj.set_additive_proj_data_sptr(a);
      }
    if (use_norm)
      {
        shared_ptr<BinNormalisation> n(new BinNormalisationFromProjData(mult));
        obj.set_normalisation_sptr(n);
      }
    obj.set_num_subsets(num_subsets);
    obj.set_recompute_sensitivity(true);
    shared_ptr<target_type> tgt(image->clone());
    if (obj.set_up(tgt) != Succeeded::yes)
      throw vf::Skip("objective set_up failed");
    Res r;
    r.grad.reset(image->get_empty_copy());
    r.hess.reset(image->get_empty_copy());
    obj.compute_sub_gradient_without_penalty(*r.grad, *image, subset);
    r.log = dist_log_sorted();
    r.value = obj.compute_objective_function_without_penalty(*image, subset);
    r.sens.reset(obj.get_subset_sensitivity(subset).clone());
    shared_ptr<target_type> dir(image->clone());
    obj.accumulate_sub_Hessian_times_input_without_penalty(*r.hess, *image, *dir, subset);
    r.ahess.reset(image->get_empty_copy());
    obj.add_multiplication_with_approximate_sub_Hessian_without_penalty(*r.ahess, *dir, subset);
    omp_set_num_threads(1);
    set_num_threads(1);
    return r;
  };
  Res r1;
  try
    {
      r1 = run(1, false, 1);
    }
  catch (const vf::Skip&)
    {
      throw;
    }
  catch (const std::exception& e)
    {
      throw vf::Skip(std::string("objective rejected: ") + e.what());
    }
  const int reps = ctx.thorough() ? 4 : 2;
  const double terms = static_cast<double>(g.pdi->get_num_views()) * g.pdi->get_num_tangential_poss() * g.pdi->get_num_segments()
                       * g.pdi->get_num_tof_poss();
  for (int rep = 0; rep < reps; ++rep)
    {
      const long before = g_tsan_reports.load();
      arm(ctx, 1200);
      Res rn = run(nth, true, vf::mix3(ctx.seed, static_cast<uint64_t>(ctx.idx), static_cast<uint64_t>(rep)));
      disarm();
      ctx.count("objective_runs");
      ctx.count("dist_viewgram_events", static_cast<long>(rn.log.size()));
      ctx.count("max_concurrency_seen", hk::max_concurrency.load() > 1 ? 1 : 0);
      ctx.sub_eval(vf::mix3(hk::signature.load(), static_cast<uint64_t>(rep), 5), true);
      check_tsan(ctx, before, "objective");
      if (rn.log != r1.log)
        {
          ctx.violation("distributable:viewgrams-not-processed-exactly-once",
                        vf::fmt("%zu viewgram events with %d threads, %zu single-threaded", rn.log.size(), nth, r1.log.size()));
          return;
        }
      std::string where;
      if (!images_close(*r1.grad, *rn.grad, nth, terms, where))
        {
          ctx.violation("gradient:multi-thread-differs-from-single-thread", where);
          return;
        }
      if (!images_close(*r1.sens, *rn.sens, nth, terms, where))
        {
          ctx.violation("sensitivity:multi-thread-differs-from-single-thread", where);
          return;
        }
      if (!images_close(*r1.hess, *rn.hess, nth, terms, where))
        {
          ctx.violation("hessian-times-input:multi-thread-differs-from-single-thread", where + (storage ? " [data on file]" : ""));
          return;
        }
      if (!images_close(*r1.ahess, *rn.ahess, nth, terms, where))
        {
          ctx.violation("approximate-hessian-times-input:multi-thread-differs-from-single-thread",
                        where + (storage ? " [data on file]" : ""));
          return;
        }
      // value: sum of per-bin terms, partial sums per thread in double
      const double vband = 1e-9 * (std::fabs(r1.value) + 1) + 64 * vf::EPS32 * std::fabs(r1.value) * 1e-3;
      if (!(std::fabs(r1.value - rn.value) <= vband))
        {
          ctx.violation("value:multi-thread-differs-from-single-thread",
                        vf::fmt("%.17g (1 thread) vs %.17g (%d threads)", r1.value, rn.value, nth));
          return;
        }
    }
  ctx.nontrivial = true;
}

// W4: single scatter simulation
static void
w_scatter(Ctx& ctx)
{
  vg::ScannerSpec ss;
  ss.ndet = 2 * static_cast<int>(ctx.rng.range(6, 10));
  ss.nrings = static_cast<int>(ctx.rng.range(2, 3)); // (ScatterSimulation::set_up asserts a non-degenerate axial extent)
  ss.radius = static_cast<float>(ctx.rng.uniform(150, 300));
  ss.ring_spacing = static_cast<float>(ctx.rng.uniform(4, 8));
  ss.bin_size = static_cast<float>(3.14159 * ss.radius / ss.ndet);
  ss.trans_per_block = 1;
  ss.axial_per_block = 1;
  vg::PdiSpec ps;
  ps.span = 1;
  ps.max_delta = ss.nrings - 1;
  ps.num_views = ss.ndet / 2;
  ps.num_tang = std::min(ss.ndet / 2 + 1, ss.ndet - 1);
  ps.tof_mash = 0;
  shared_ptr<Scanner> sc = vg::make_scanner(ss);
  shared_ptr<ProjDataInfo> pdi = vg::make_pdi(sc, ps);
  int nth = pick_threads(ctx, ps.num_views * 2);
  bool use_cache = ctx.rng.coin(0.7);
  if (const char* e = std::getenv("VERIF_C18_DEBUG_THREADS"))
    nth = std::atoi(e);
  if (const char* e = std::getenv("VERIF_C18_DEBUG_CACHE"))
    use_cache = std::atoi(e) != 0;
  ctx.desc.add("workload", "scatter").add("threads", nth).add("scanner", ss.desc()).add("cache", use_cache);
  ctx.heartbeat("scatter");
  shared_ptr<ExamInfo> ei(new ExamInfo(ImagingModality::PT));
  ei->set_low_energy_thres(350.F);
  ei->set_high_energy_thres(650.F);
  // small images
  const float vox = static_cast<float>(ss.radius / 6);
  IndexRange3D r(0, 2, -3, 3, -3, 3);
  shared_ptr<VoxelsOnCartesianGrid<float>> act(
      new VoxelsOnCartesianGrid<float>(ei, r, CartesianCoordinate3D<float>(0, 0, 0), CartesianCoordinate3D<float>(ss.ring_spacing, vox, vox)));
  shared_ptr<VoxelsOnCartesianGrid<float>> att(act->get_empty_copy());
  for (auto it = act->begin_all(); it != act->end_all(); ++it)
    *it = static_cast<float>(ctx.rng.uniform(0.0, 1.0));
  for (auto it = att->begin_all(); it != att->end_all(); ++it)
    *it = static_cast<float>(ctx.rng.uniform(0.02, 0.1));
  auto run = [&](int threads, bool perturb_it, uint64_t seed) -> shared_ptr<ProjDataInMemory> {
    omp_set_num_threads(threads);
    set_num_threads(threads);
    hk::reset(seed, perturb_it, threads);
    SingleScatterSimulation sim;
    // note: set_density_image_for_scatter_points_sptr() samples the scatter points immediately with the *current*
    // settings, so these two must come first
    sim.set_randomly_place_scatter_points(false);
    sim.set_attenuation_threshold(0.01f);
    sim.set_template_proj_data_info(*pdi);
    sim.set_exam_info(*ei);
    sim.set_activity_image_sptr(act);
    sim.set_density_image_sptr(att);
    sim.set_density_image_for_scatter_points_sptr(att);
    sim.set_use_cache(use_cache);
    shared_ptr<ProjDataInMemory> out(new ProjDataInMemory(ei, pdi->create_shared_clone()));
    out->fill(0.F);
    sim.set_output_proj_data_sptr(out);
    if (sim.set_up() != Succeeded::yes)
      throw vf::Skip("scatter set_up failed");
    if (sim.process_data() != Succeeded::yes)
      throw std::runtime_error("scatter process_data failed");
    omp_set_num_threads(1);
    set_num_threads(1);
    return out;
  };
  shared_ptr<ProjDataInMemory> o1;
  try
    {
      o1 = run(1, false, 1);
    }
  catch (const vf::Skip&)
    {
      throw;
    }
  catch (const std::exception& e)
    {
      throw vf::Skip(std::string("scatter rejected: ") + e.what());
    }
  const int reps = ctx.thorough() ? 4 : 2;
  for (int rep = 0; rep < reps; ++rep)
    {
      const long before = g_tsan_reports.load();
      arm(ctx, 1200);
      auto on = run(nth, true, vf::mix3(ctx.seed, static_cast<uint64_t>(ctx.idx), static_cast<uint64_t>(rep)));
      disarm();
      ctx.count("scatter_runs");
      ctx.count("scatter_cache_writes", hook_count(STIR_VERIF_SCAT_CACHE_WRITE));
      ctx.sub_eval(vf::mix3(hk::signature.load(), static_cast<uint64_t>(rep), 9), true);
      check_tsan(ctx, before, "scatter");
      // each bin is computed by exactly one thread from the same inputs: results are identical except for values taken
      // from the cache vs recomputed (same function, same arguments -> same float).  Require bit equality.
      std::string where;
      if (!projdata_equal(*o1, *on, where))
        {
          ctx.violation("scatter:multi-thread-differs-from-single-thread", where + vf::fmt(", %d threads, cache %d", nth, use_cache));
          return;
        }
    }
  ctx.nontrivial = true;
}

static void
run_case(Ctx& ctx)
{
  const long before = g_tsan_reports.load();
  switch (ctx.idx % 5)
    {
    case 0:
      w_lazy(ctx);
      break;
    case 1:
      w_cache(ctx);
      break;
    case 2:
      w_project(ctx);
      break;
    case 3:
      w_objective(ctx);
      break;
    case 4:
      w_scatter(ctx);
      break;
    }
  disarm();
  omp_set_num_threads(1);
  (void)before;
}

int
main(int argc, char** argv)
{
  vg::quiet();
  omp_set_dynamic(0);
  std::thread(watchdog).detach();
  return vf::verif_main(argc, argv, "C18", run_case);
}
