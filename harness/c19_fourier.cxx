// C19: Fourier transforms invert and filters are the convolutions they claim to be (DESIGN.md §6 C19).
//
// Oracles (all computed by this file in float64, independent of STIR's FFT):
//   dft       naive O(n^2) DFT per axis, convention of fourier.h  r_s = sum_r c_r exp(sign 2 pi i r s / n)
//   filter    direct (non-periodic) convolution  out_i = sum_j k_j in_{i-j}
//   separable successive application of the 1-D linear operators along each axis (any order)
//   gaussian / metz   impulse response (= the kernel), its sum, and preservation of constants
// Tolerances: FFT results  c*(log2 N + s)*eps32*norm  (normwise FFT error bound), direct sums vf::band32.
#include "common/verif.h"
#include "common/gen.h"
#include "stir/numerics/fourier.h"
#include "stir/Array.h"
#include "stir/Array_complex_numbers.h"
#include "stir/IndexRange.h"
#include "stir/IndexRange3D.h"
#include "stir/ArrayFilterUsingRealDFTWithPadding.h"
#include "stir/ArrayFilter1DUsingConvolution.h"
#include "stir/ArrayFilter1DUsingConvolutionSymmetricKernel.h"
#include "stir/ArrayFilter2DUsingConvolution.h"
#include "stir/ArrayFilter3DUsingConvolution.h"
#include "stir/SeparableArrayFunctionObject.h"
#include "stir/SeparableGaussianArrayFilter.h"
#include "stir/SeparableMetzArrayFilter.h"
#include "stir/SeparableConvolutionImageFilter.h"
#include "stir/SeparableGaussianImageFilter.h"
#include "stir/VoxelsOnCartesianGrid.h"
#include <complex>
#include <sys/wait.h>
#include <sys/types.h>
#include <sys/resource.h>

#if defined(__has_feature)
#  if __has_feature(address_sanitizer)
#    define C19_ASAN 1
#  endif
#endif
#ifdef C19_ASAN
extern "C" void __sanitizer_set_report_path(const char*);
#endif

using namespace stir;
using vf::Ctx;
using vf::Rng;
typedef std::complex<double> cd;
typedef std::complex<float> cf;

static const double EPS32 = vf::EPS32;
static const double CFFT = 8.0; // constant of the normwise FFT error bound  CFFT*(log2 N + s)*eps32*||.||

// ------------------------------------------------------------------ debugging statistics (VERIF_C19_DEBUG=1)
static std::map<std::string, double> g_maxratio;
static bool g_debug = false;
static void
note_ratio(const std::string& what, double err, double band)
{
  if (!g_debug)
    return;
  const double r = band > 0 ? err / band : (err > 0 ? 1e300 : 0);
  double& m = g_maxratio[what];
  if (r > m)
    m = r;
}
static void
dump_ratios()
{
  if (!g_debug)
    return;
  for (auto& kv : g_maxratio)
    std::fprintf(stderr, "C19-RATIO %-60s %.4g\n", kv.first.c_str(), kv.second);
}

// ------------------------------------------------------------------ dense n-d array with index offsets (n<=3)
template <class T>
struct ND
{
  int D = 0;
  int lo[3] = { 0, 0, 0 }, n[3] = { 1, 1, 1 };
  std::vector<T> v;
  ND() {}
  ND(int D_, const int* lo_, const int* n_)
      : D(D_)
  {
    size_t s = 1;
    for (int d = 0; d < D; ++d)
      {
        lo[d] = lo_[d];
        n[d] = n_[d];
        s *= static_cast<size_t>(n[d]);
      }
    v.assign(s, T());
  }
  size_t size() const { return v.size(); }
  int hi(int d) const { return lo[d] + n[d] - 1; }
  bool inside(const int* i) const
  {
    for (int d = 0; d < D; ++d)
      if (i[d] < lo[d] || i[d] > hi(d))
        return false;
    return true;
  }
  size_t off(const int* i) const
  {
    size_t o = 0;
    for (int d = 0; d < D; ++d)
      o = o * static_cast<size_t>(n[d]) + static_cast<size_t>(i[d] - lo[d]);
    return o;
  }
  T& operator()(const int* i) { return v[off(i)]; }
  const T& operator()(const int* i) const { return v[off(i)]; }
  void first(int* i) const
  {
    for (int d = 0; d < 3; ++d)
      i[d] = lo[d];
  }
  bool next(int* i) const
  {
    for (int d = D - 1; d >= 0; --d)
      {
        if (++i[d] <= hi(d))
          return true;
        i[d] = lo[d];
      }
    return false;
  }
  std::string shape() const
  {
    std::string s;
    for (int d = 0; d < D; ++d)
      s += vf::fmt("%s[%d,%d]", d ? "x" : "", lo[d], hi(d));
    return s;
  }
};

static std::string
idxs(int D, const int* i)
{
  std::string s = "(";
  for (int d = 0; d < D; ++d)
    s += (d ? "," : "") + std::to_string(i[d]);
  return s + ")";
}

template <int D>
static BasicCoordinate<D, int>
bc(const int* i)
{
  BasicCoordinate<D, int> c;
  for (int d = 0; d < D; ++d)
    c[d + 1] = i[d];
  return c;
}
template <int D>
static IndexRange<D>
mkrange(const int* lo, const int* n)
{
  BasicCoordinate<D, int> mn, mx;
  for (int d = 0; d < D; ++d)
    {
      mn[d + 1] = lo[d];
      mx[d + 1] = lo[d] + n[d] - 1;
    }
  return IndexRange<D>(mn, mx);
}
template <int D, class U>
static IndexRange<D>
mkrange(const ND<U>& x)
{
  return mkrange<D>(x.lo, x.n);
}
// does the STIR array have exactly this regular range?
template <int D, class T>
static bool
shape_is(const Array<D, T>& a, const int* lo, const int* n, std::string& got)
{
  BasicCoordinate<D, int> mn, mx;
  if (!a.get_regular_range(mn, mx))
    {
      got = "not regular/empty";
      return false;
    }
  bool ok = true;
  got.clear();
  for (int d = 0; d < D; ++d)
    {
      got += vf::fmt("[%d,%d]", mn[d + 1], mx[d + 1]);
      if (mn[d + 1] != lo[d] || mx[d + 1] != lo[d] + n[d] - 1)
        ok = false;
    }
  return ok;
}
template <int D>
static void
to_stir(Array<D, float>& a, const ND<double>& x)
{
  int i[3];
  x.first(i);
  do
    a[bc<D>(i)] = static_cast<float>(x(i));
  while (x.next(i));
}
template <int D>
static void
to_stir(Array<D, cf>& a, const ND<cd>& x)
{
  int i[3];
  x.first(i);
  do
    a[bc<D>(i)] = cf(static_cast<float>(x(i).real()), static_cast<float>(x(i).imag()));
  while (x.next(i));
}
template <int D>
static void
from_stir(ND<double>& x, const Array<D, float>& a)
{
  int i[3];
  x.first(i);
  do
    x(i) = a[bc<D>(i)];
  while (x.next(i));
}
template <int D>
static void
from_stir(ND<cd>& x, const Array<D, cf>& a)
{
  int i[3];
  x.first(i);
  do
    {
      const cf z = a[bc<D>(i)];
      x(i) = cd(z.real(), z.imag());
    }
  while (x.next(i));
}

static double
norm2(const ND<cd>& x)
{
  double s = 0;
  for (auto& z : x.v)
    s += std::norm(z);
  return std::sqrt(s);
}
static double
norm2(const ND<double>& x)
{
  double s = 0;
  for (auto& z : x.v)
    s += z * z;
  return std::sqrt(s);
}
static double
norm1(const ND<double>& x)
{
  double s = 0;
  for (auto& z : x.v)
    s += std::fabs(z);
  return s;
}
template <class T>
static double
diffnorm(const ND<T>& a, const ND<T>& b, size_t* worst = nullptr)
{
  double s = 0, w = -1;
  for (size_t i = 0; i < a.v.size(); ++i)
    {
      const double e = std::abs(a.v[i] - b.v[i]);
      if (!(e == e))
        {
          if (worst)
            *worst = i;
          return std::numeric_limits<double>::infinity();
        }
      s += e * e;
      if (e > w)
        {
          w = e;
          if (worst)
            *worst = i;
        }
    }
  return std::sqrt(s);
}
template <class T>
static bool
is_constant(const ND<T>& x)
{
  for (auto& z : x.v)
    if (z != x.v[0])
      return false;
  return true;
}

// ------------------------------------------------------------------ naive DFT (the independent reference)
// along axis ax:  X_s = sum_r x_r exp(sign 2 pi i r s / n)      (fourier.h, fourier_1d)
static void
naive_dft_axis(ND<cd>& x, int ax, int sign)
{
  const int n = x.n[ax];
  if (n == 1)
    return;
  std::vector<cd> w(static_cast<size_t>(n));
  for (int t = 0; t < n; ++t)
    {
      const double ang = sign * 2.0 * 3.14159265358979323846264338327950288 * t / n;
      w[static_cast<size_t>(t)] = cd(std::cos(ang), std::sin(ang));
    }
  size_t stride = 1, outer = 1;
  for (int d = ax + 1; d < x.D; ++d)
    stride *= static_cast<size_t>(x.n[d]);
  for (int d = 0; d < ax; ++d)
    outer *= static_cast<size_t>(x.n[d]);
  std::vector<cd> tmp(static_cast<size_t>(n));
  for (size_t o = 0; o < outer; ++o)
    for (size_t s = 0; s < stride; ++s)
      {
        const size_t base = o * static_cast<size_t>(n) * stride + s;
        for (int r = 0; r < n; ++r)
          tmp[static_cast<size_t>(r)] = x.v[base + static_cast<size_t>(r) * stride];
        for (int k = 0; k < n; ++k)
          {
            cd acc = 0;
            for (int r = 0; r < n; ++r)
              acc += tmp[static_cast<size_t>(r)] * w[static_cast<size_t>((static_cast<long>(r) * k) % n)];
            x.v[base + static_cast<size_t>(k) * stride] = acc;
          }
      }
}
static ND<cd>
naive_dft(const ND<cd>& x, int sign)
{
  ND<cd> y = x;
  for (int d = 0; d < y.D; ++d)
    naive_dft_axis(y, d, sign);
  return y;
}

static double
fftband(double log2n_plus, double norm)
{
  return CFFT * log2n_plus * EPS32 * norm;
}

static float
rnd_val(Rng& r, double scale)
{
  return static_cast<float>(scale * r.normal());
}

// ================================================================== mode A: DFT
template <int D>
static void
case_dft(Ctx& ctx, const int* n, int sign)
{
  const int lo0[3] = { 0, 0, 0 };
  long N = 1;
  int logN = 0;
  for (int d = 0; d < D; ++d)
    {
      N *= n[d];
      int m = n[d];
      while (m > 1)
        {
          m >>= 1;
          ++logN;
        }
    }
  const std::string tag = vf::fmt("%dd", D);
  static const char* kinds[] = { "random", "impulse", "constant", "real-valued" };
  const double u = ctx.rng.u01();
  const int kind = u < 0.70 ? 0 : (u < 0.85 ? 1 : (u < 0.92 ? 2 : 3));
  const double scale = std::pow(10., ctx.rng.uniform(-2, 2));
  std::vector<int> nv(n, n + D);
  ctx.desc.add("mode", "dft").add("dim", D).add("sizes", nv).add("sign", sign).add("data", kinds[kind]).add("scale", scale);

  ND<cd> x(D, lo0, n);
  int imp[3] = { 0, 0, 0 };
  if (kind == 0)
    for (auto& z : x.v)
      z = cd(rnd_val(ctx.rng, scale), rnd_val(ctx.rng, scale));
  else if (kind == 1)
    {
      for (int d = 0; d < D; ++d)
        imp[d] = ctx.rng.coin(0.4) ? 0 : static_cast<int>(ctx.rng.range(0, n[d] - 1));
      x(imp) = cd(rnd_val(ctx.rng, scale) + static_cast<float>(scale), ctx.rng.coin() ? 0.f : rnd_val(ctx.rng, scale));
    }
  else if (kind == 2)
    {
      const cd c(rnd_val(ctx.rng, scale), rnd_val(ctx.rng, scale));
      for (auto& z : x.v)
        z = c;
    }
  else
    for (auto& z : x.v)
      z = cd(rnd_val(ctx.rng, scale), 0.);
  const double nx = norm2(x);
  const bool use_default_sign = sign == 1 && ctx.rng.coin(0.3);
  ctx.nontrivial = N >= 4 && !is_constant(x);
  ctx.heartbeat("fourier");

  // ---- A1 forward complex transform vs naive DFT
  const ND<cd> ref = naive_dft(x, sign);
  Array<D, cf> c(mkrange<D>(x));
  to_stir(c, x);
  if (use_default_sign)
    fourier(c);
  else
    fourier(c, sign);
  ND<cd> F(D, lo0, n);
  {
    std::string got;
    if (!shape_is(c, lo0, n, got))
      {
        ctx.violation("fourier:" + tag + ":index-range-changed", "after fourier() range is " + got);
        return;
      }
  }
  from_stir(F, c);
  {
    const double band = fftband(logN + 1, std::sqrt(static_cast<double>(N)) * nx);
    size_t w = 0;
    const double err = diffnorm(F, ref, &w);
    note_ratio("fourier-forward-" + tag, err, band);
    if (!(err <= band))
      {
        ctx.violation("fourier:" + tag + ":forward-vs-naive-dft",
                      vf::fmt("||fourier(x,%d)-DFT(x)||_2=%.6g > band %.6g (N=%ld); worst flat index %zu: got (%.9g,%.9g) expected (%.9g,%.9g)",
                              sign, err, band, N, w, F.v[w].real(), F.v[w].imag(), ref.v[w].real(), ref.v[w].imag()));
        return;
      }
    ctx.count("dft_checks_" + tag);
    ctx.count("dft_forward_checks");
    if (D == 1)
      ctx.count(vf::fmt("dft_len_%d", n[0]));
  }
  // ---- impulse -> constant modulus (exactly constant for an impulse at the origin)
  if (kind == 1)
    {
      const cd a = x(imp);
      const bool at0 = imp[0] == 0 && imp[1] == 0 && imp[2] == 0;
      const double band = fftband(logN + 1, std::sqrt(static_cast<double>(N)) * nx);
      for (size_t i = 0; i < F.v.size(); ++i)
        {
          const double e = at0 ? std::abs(F.v[i] - a) : std::fabs(std::abs(F.v[i]) - std::abs(a));
          if (!(e <= band))
            {
              ctx.violation("fourier:" + tag + ":impulse-not-constant",
                            vf::fmt("impulse (%.9g,%.9g) at %s: element %zu of the transform is (%.9g,%.9g)", a.real(), a.imag(),
                                    idxs(D, imp).c_str(), i, F.v[i].real(), F.v[i].imag()));
              return;
            }
        }
      ctx.count("dft_impulse_checks");
    }
  // ---- Parseval
  {
    double sF = 0, sx = 0;
    for (auto& z : F.v)
      sF += std::norm(z);
    for (auto& z : x.v)
      sx += std::norm(z);
    const double rel = CFFT * (logN + 1) * EPS32;
    const double band = (2 * rel + rel * rel) * N * sx;
    note_ratio("parseval-" + tag, std::fabs(sF - N * sx), band);
    if (!(std::fabs(sF - N * sx) <= band))
      {
        ctx.violation("fourier:" + tag + ":parseval", vf::fmt("sum|F|^2=%.9g, N*sum|x|^2=%.9g, band %.3g", sF, N * sx, band));
        return;
      }
    ctx.count("dft_parseval_checks");
  }
  // ---- A2 inverse(forward(x)) == x
  {
    if (use_default_sign)
      inverse_fourier(c);
    else
      inverse_fourier(c, sign);
    ND<cd> back(D, lo0, n);
    from_stir(back, c);
    const double band = fftband(2 * logN + 2, nx);
    size_t w = 0;
    const double err = diffnorm(back, x, &w);
    note_ratio("fourier-roundtrip-" + tag, err, band);
    if (!(err <= band))
      {
        ctx.violation("fourier:" + tag + ":inverse-of-forward",
                      vf::fmt("||inverse_fourier(fourier(x))-x||_2=%.6g > band %.6g; worst flat index %zu: got (%.9g,%.9g) expected (%.9g,%.9g)",
                              err, band, w, back.v[w].real(), back.v[w].imag(), x.v[w].real(), x.v[w].imag()));
        return;
      }
    ctx.count("dft_checks_" + tag);
    ctx.count("dft_roundtrip_checks");
  }
  // ---- A3 inverse alone vs naive inverse DFT
  {
    ND<cd> y(D, lo0, n);
    for (auto& z : y.v)
      z = cd(rnd_val(ctx.rng, scale), rnd_val(ctx.rng, scale));
    ND<cd> refi = naive_dft(y, -sign);
    for (auto& z : refi.v)
      z /= static_cast<double>(N);
    Array<D, cf> cy(mkrange<D>(y));
    to_stir(cy, y);
    inverse_fourier(cy, sign);
    ND<cd> got(D, lo0, n);
    from_stir(got, cy);
    const double band = fftband(logN + 2, norm2(y) / std::sqrt(static_cast<double>(N)));
    size_t w = 0;
    const double err = diffnorm(got, refi, &w);
    note_ratio("fourier-inverse-" + tag, err, band);
    if (!(err <= band))
      {
        ctx.violation("fourier:" + tag + ":inverse-vs-naive-dft",
                      vf::fmt("||inverse_fourier(y,%d)-IDFT(y)||_2=%.6g > band %.6g; worst flat index %zu: got (%.9g,%.9g) expected (%.9g,%.9g)",
                              sign, err, band, w, got.v[w].real(), got.v[w].imag(), refi.v[w].real(), refi.v[w].imag()));
        return;
      }
    ctx.count("dft_checks_" + tag);
    ctx.count("dft_inverse_checks");
  }
  // ---- A4 real data (last dimension must be even: guaranteed by the generator, n[D-1]>=2)
  if (n[D - 1] >= 2)
    {
      ND<double> r(D, lo0, n);
      ND<cd> rc(D, lo0, n);
      for (size_t i = 0; i < r.v.size(); ++i)
        {
          r.v[i] = kind == 2 ? scale : rnd_val(ctx.rng, scale);
          rc.v[i] = cd(r.v[i], 0);
        }
      const double nr = norm2(r);
      const ND<cd> refr = naive_dft(rc, sign);
      Array<D, float> ra(mkrange<D>(r));
      to_stir(ra, r);
      const Array<D, cf> P = fourier_for_real_data(ra, sign);
      int np[3] = { 1, 1, 1 };
      for (int d = 0; d < D; ++d)
        np[d] = n[d];
      np[D - 1] = n[D - 1] / 2 + 1;
      std::string got;
      if (!shape_is(P, lo0, np, got))
        {
          ctx.violation("fourier_for_real_data:" + tag + ":shape", "returned index range " + got + ", documented (n1,..,nd/2+1) from 0");
          return;
        }
      ND<cd> Pn(D, lo0, np), Pref(D, lo0, np);
      from_stir(Pn, P);
      {
        int i[3];
        Pref.first(i);
        do
          Pref(i) = refr(i);
        while (Pref.next(i));
      }
      const double band = fftband(logN + 3, std::sqrt(static_cast<double>(N)) * nr);
      {
        size_t w = 0;
        const double err = diffnorm(Pn, Pref, &w);
        note_ratio("real-forward-" + tag, err, band);
        if (!(err <= band))
          {
            ctx.violation("fourier_for_real_data:" + tag + ":values-vs-naive-dft",
                          vf::fmt("||fourier_for_real_data(v,%d)-DFT(v)[pos freq]||_2=%.6g > band %.6g; worst flat index %zu of %s: got (%.9g,%.9g) "
                                  "expected (%.9g,%.9g)",
                                  sign, err, band, w, Pn.shape().c_str(), Pn.v[w].real(), Pn.v[w].imag(), Pref.v[w].real(),
                                  Pref.v[w].imag()));
            return;
          }
      }
      // pos_frequencies_to_all: exact copies / conjugates, and the full transform
      const Array<D, cf> A = pos_frequencies_to_all(P);
      if (!shape_is(A, lo0, n, got))
        {
          ctx.violation("pos_frequencies_to_all:" + tag + ":shape", "returned index range " + got);
          return;
        }
      ND<cd> An(D, lo0, n);
      from_stir(An, A);
      {
        int i[3];
        An.first(i);
        do
          {
            int neg[3] = { 0, 0, 0 };
            for (int d = 0; d < D; ++d)
              neg[d] = (n[d] - i[d]) % n[d];
            const int kd = i[D - 1], half = n[D - 1] / 2;
            bool ok;
            if (kd < half || kd == 0)
              ok = An(i) == Pn(i);
            else if (kd == half)
              ok = An(i) == Pn(i) || An(i) == std::conj(Pn(neg));
            else
              ok = An(i) == std::conj(Pn(neg));
            if (!ok)
              {
                ctx.violation("pos_frequencies_to_all:" + tag + ":conjugate-symmetry",
                              vf::fmt("element %s = (%.9g,%.9g) is neither the input element nor conj(input%s) = conj(%.9g,%.9g)",
                                      idxs(D, i).c_str(), An(i).real(), An(i).imag(), idxs(D, neg).c_str(),
                                      neg[D - 1] <= half ? Pn(neg).real() : 0., neg[D - 1] <= half ? Pn(neg).imag() : 0.));
                return;
              }
          }
        while (An.next(i));
      }
      {
        size_t w = 0;
        const double err = diffnorm(An, refr, &w);
        note_ratio("real-all-" + tag, err, 1.5 * band);
        if (!(err <= 1.5 * band))
          {
            ctx.violation("pos_frequencies_to_all:" + tag + ":values-vs-naive-dft",
                          vf::fmt("||pos_frequencies_to_all(fourier_for_real_data(v))-DFT(v)||_2=%.6g > band %.6g; worst flat index %zu", err,
                                  1.5 * band, w));
            return;
          }
      }
      // real transform agrees with STIR's complex transform of the same data
      {
        Array<D, cf> cc(mkrange<D>(rc));
        to_stir(cc, rc);
        fourier(cc, sign);
        ND<cd> Cn(D, lo0, n);
        from_stir(Cn, cc);
        const double err = diffnorm(An, Cn);
        note_ratio("real-vs-complex-" + tag, err, 2.5 * band);
        if (!(err <= 2.5 * band))
          {
            ctx.violation("fourier_for_real_data:" + tag + ":vs-complex-fourier",
                          vf::fmt("||pos_frequencies_to_all(fourier_for_real_data(v))-fourier(complex(v))||_2=%.6g > band %.6g", err, 2.5 * band));
            return;
          }
      }
      // inverse real transform
      Array<D, float> rb;
      const bool corrupting = ctx.rng.coin(0.5);
      try
        {
          if (!corrupting)
            rb = inverse_fourier_for_real_data(P, sign);
          else
            {
              Array<D, cf> Pc(P);
              rb = inverse_fourier_for_real_data_corrupting_input(Pc, sign);
            }
        }
      catch (const std::exception& e)
        {
          // the forward transform accepted this (even, power-of-two) size, so its output must be invertible
          ctx.violation("inverse_fourier_for_real_data:rejects-output-of-fourier_for_real_data"
                            + std::string(n[D - 1] == 2 ? ":last-dimension-of-size-2" : ""),
                        vf::fmt("real array of sizes %s: fourier_for_real_data succeeded, inverse_fourier_for_real_data threw: %s",
                                r.shape().c_str(), e.what()));
          return;
        }
      if (!shape_is(rb, lo0, n, got))
        {
          ctx.violation("inverse_fourier_for_real_data:" + tag + ":shape", "returned index range " + got);
          return;
        }
      ND<double> rbn(D, lo0, n);
      from_stir(rbn, rb);
      {
        size_t w = 0;
        const double bandr = fftband(2 * logN + 6, nr);
        const double err = diffnorm(rbn, r, &w);
        note_ratio("real-roundtrip-" + tag, err, bandr);
        if (!(err <= bandr))
          {
            ctx.violation("inverse_fourier_for_real_data:" + tag + ":roundtrip",
                          vf::fmt("||inverse_fourier_for_real_data(fourier_for_real_data(v))-v||_2=%.6g > band %.6g; worst flat index %zu: got "
                                  "%.9g expected %.9g",
                                  err, bandr, w, rbn.v[w], r.v[w]));
            return;
          }
      }
      ctx.count("dft_checks_" + tag);
      ctx.count("dft_real_checks");
    }
  ctx.count("dft_cases_" + tag);
}

// ================================================================== sandboxed execution of a sub-check in a forked child
// Used where a class reads/writes outside its kernel storage for some index ranges: the child dies (assert / ASan /
// glibc abort) without corrupting this process, and the violation gets a key naming the class and the input class.
struct ChildResult
{
  int status = 0; // 0 ok, 10 value mismatch (text = witness), 20 exception (text = what), 99 died
  std::string text;
};
template <class F>
static ChildResult
run_in_child(F f)
{
  ChildResult res;
  int pfd[2];
  if (::pipe(pfd) != 0)
    throw std::runtime_error("pipe failed");
  std::fflush(nullptr);
  const pid_t pid = ::fork();
  if (pid < 0)
    throw std::runtime_error("fork failed");
  if (pid == 0)
    {
      ::close(pfd[0]);
      ::dup2(pfd[1], 2);
      {
        struct rlimit rl;
        rl.rlim_cur = rl.rlim_max = 0;
        ::setrlimit(RLIMIT_CORE, &rl);
      }
#ifdef C19_ASAN
      __sanitizer_set_report_path("stderr");
#endif
      int code = 20;
      std::string msg;
      try
        {
          std::pair<int, std::string> r = f();
          code = r.first;
          msg = r.second;
        }
      catch (const std::exception& e)
        {
          msg = e.what();
        }
      catch (...)
        {
          msg = "non-std exception";
        }
      msg = "\x01" + msg;
      ssize_t w = ::write(pfd[1], msg.data(), msg.size());
      (void)w;
      ::_exit(code);
    }
  ::close(pfd[1]);
  std::string all;
  char buf[4096];
  for (;;)
    {
      const ssize_t r = ::read(pfd[0], buf, sizeof buf);
      if (r <= 0)
        break;
      if (all.size() < 65536)
        all.append(buf, static_cast<size_t>(r));
    }
  ::close(pfd[0]);
  int st = 0;
  ::waitpid(pid, &st, 0);
  const size_t mark = all.rfind('\x01');
  if (WIFEXITED(st) && (WEXITSTATUS(st) == 0 || WEXITSTATUS(st) == 10 || WEXITSTATUS(st) == 20) && mark != std::string::npos)
    {
      res.status = WEXITSTATUS(st);
      res.text = all.substr(mark + 1);
      return res;
    }
  res.status = 99;
  // most informative part of what the child printed before dying
  size_t p = all.find("Assertion");
  if (p == std::string::npos)
    p = all.find("ERROR: AddressSanitizer");
  if (p == std::string::npos)
    p = all.find("runtime error");
  if (p == std::string::npos)
    p = 0;
  else
    p = all.rfind('\n', p) == std::string::npos ? 0 : all.rfind('\n', p) + 1;
  res.text = (WIFSIGNALED(st) ? vf::fmt("child killed by signal %d; ", WTERMSIG(st)) : vf::fmt("child exit status %d; ", WEXITSTATUS(st)))
             + all.substr(p, 1200);
  return res;
}

// ================================================================== mode B: DFT filter vs direct convolution
struct AxisCfg
{
  int p = 1, L = 2;      // padded (kernel) length 2^p
  int a = 0, nin = 1;    // input data range [a, a+nin-1]
  int c = 0, nout = 1;   // compared output range [c, c+nout-1]
  int ulo = 0;           // window U=[ulo,ulo+L-1] of kernel offsets that are distinct modulo L and contain all offsets used
  int slo = 0, shi = 0;  // support S of the true kernel, inside U
  int kmin = 0;          // first index of the (periodic) kernel array handed to ArrayFilterUsingRealDFTWithPadding
};
// variant: 0 separate in/out arrays, 1 in-place (out range = in range), 2 pre-padded arrays [0,L-1] (fast path of do_it)
static AxisCfg
gen_axis(Rng& rng, int p, int variant, bool force_zero_in_M)
{
  AxisCfg x;
  x.p = p;
  x.L = 1 << p;
  const int half = x.L / 2;
  x.nin = static_cast<int>(rng.range(1, half));
  x.nout = static_cast<int>(rng.range(1, half));
  if (rng.coin(0.3))
    x.nin = half;
  if (rng.coin(0.3))
    x.nout = half;
  if (variant == 1)
    x.nout = x.nin;
  if (variant == 2)
    {
      x.a = static_cast<int>(rng.range(0, x.L - x.nin));
      x.c = static_cast<int>(rng.range(0, x.L - x.nout));
    }
  else
    {
      x.a = static_cast<int>(rng.range(-12, 12));
      x.c = x.a + static_cast<int>(rng.range(-(x.nout + 1), x.nin + 1));
      if (rng.coin(0.3))
        x.c = x.a;
    }
  if (variant == 1 || force_zero_in_M)
    x.c = x.a;
  if (variant == 2 && x.c + x.nout > x.L)
    x.nout = x.L - x.c;
  const int b = x.a + x.nin - 1, d = x.c + x.nout - 1;
  const int Mlo = x.c - b, Mhi = d - x.a; // kernel offsets i-j that occur
  x.ulo = static_cast<int>(rng.range(Mhi - x.L + 1, Mlo));
  const int uhi = x.ulo + x.L - 1;
  const double u = rng.u01();
  if (u < 0.35)
    {
      x.slo = x.ulo;
      x.shi = uhi;
    }
  else if (u < 0.75)
    {
      x.slo = static_cast<int>(rng.range(x.ulo, uhi));
      x.shi = static_cast<int>(rng.range(x.slo, uhi));
    }
  else
    {
      const int len = static_cast<int>(rng.range(1, std::min(5, x.L)));
      x.slo = static_cast<int>(rng.range(std::max(x.ulo, Mlo - 1), std::max(x.ulo, std::min(uhi - len + 1, Mhi))));
      x.shi = std::min(uhi, x.slo + len - 1);
    }
  const double v = rng.u01();
  if (v < 0.3)
    x.kmin = 0;
  else if (v < 0.5)
    x.kmin = -half;
  else if (v < 0.7)
    x.kmin = x.ulo;
  else
    x.kmin = static_cast<int>(rng.range(-2 * x.L, x.L));
  return x;
}
static int
pmod(int a, int m)
{
  const int r = a % m;
  return r < 0 ? r + m : r;
}

// direct convolution in float64:  R_i = sum_m k_m x_{i-m}  (x = 0 outside its range), A_i = sum |terms|, cnt_i = #terms
static void
conv_ref(const ND<double>& k, const ND<double>& x, ND<double>& R, ND<double>& A, ND<int>& cnt)
{
  int i[3], m[3], j[3] = { 0, 0, 0 };
  R.first(i);
  do
    {
      double r = 0, a = 0;
      int c = 0;
      k.first(m);
      do
        {
          for (int d = 0; d < k.D; ++d)
            j[d] = i[d] - m[d];
          if (x.inside(j))
            {
              const double t = k(m) * x(j);
              r += t;
              a += std::fabs(t);
              ++c;
            }
        }
      while (k.next(m));
      R(i) = r;
      A(i) = a;
      cnt(i) = c;
    }
  while (R.next(i));
}

template <int D>
struct ConvTraits;
template <>
struct ConvTraits<1>
{
  typedef ArrayFilter1DUsingConvolution<float> type;
  static const char* name() { return "ArrayFilter1DUsingConvolution"; }
};
template <>
struct ConvTraits<2>
{
  typedef ArrayFilter2DUsingConvolution<float> type;
  static const char* name() { return "ArrayFilter2DUsingConvolution"; }
};
template <>
struct ConvTraits<3>
{
  typedef ArrayFilter3DUsingConvolution<float> type;
  static const char* name() { return "ArrayFilter3DUsingConvolution"; }
};

// compare a float STIR result with the float64 reference elementwise (direct sums): band32(cnt, A)
template <int D>
static bool
compare_direct(const Array<D, float>& out, const ND<double>& R, const ND<double>& A, const ND<int>& cnt, std::string& witness,
               const std::string& ratio_name)
{
  int i[3];
  R.first(i);
  do
    {
      const double got = out[bc<D>(i)];
      const double band = vf::band32(cnt(i), A(i));
      note_ratio(ratio_name, std::fabs(got - R(i)), band + 4 * EPS32 * std::fabs(R(i)) + 1e-300);
      if (!vf::close_enough(got, R(i), band))
        {
          witness = vf::fmt("out%s = %.9g, direct convolution in float64 = %.9g (band %.3g, %d terms)", idxs(D, i).c_str(), got, R(i), band,
                            cnt(i));
          return false;
        }
    }
  while (R.next(i));
  return true;
}

template <int D>
static void
case_filter(Ctx& ctx, const int* p)
{
  const std::string tag = vf::fmt("%dd", D);
  const double uv = ctx.rng.u01();
  const int variant = uv < 0.55 ? 0 : (uv < 0.8 ? 1 : 2);
  // a small share of >=2-D cases uses kernels that are 1 element thick in the outer dimension(s)
  const bool thin = D >= 2 && ctx.rng.coin(0.08);
  AxisCfg ax[3];
  for (int d = 0; d < D; ++d)
    ax[d] = gen_axis(ctx.rng, p[d], variant, thin);
  bool thin_one = false, thin_contains0 = false;
  if (thin)
    {
      thin_contains0 = ctx.rng.coin(0.6);
      thin_one = thin_contains0 && ctx.rng.coin(0.7);
      for (int d = 0; d < D; ++d)
        {
          // offset 0 is used (c==a) hence inside U
          if (d < D - 1)
            ax[d].slo = ax[d].shi = 0;
          else if (thin_contains0)
            {
              ax[d].slo = std::max(ax[d].ulo, -static_cast<int>(ctx.rng.range(0, 3)));
              ax[d].shi = std::min(ax[d].ulo + ax[d].L - 1, static_cast<int>(ctx.rng.range(1, 3)));
            }
        }
    }
  int in_lo[3] = { 0, 0, 0 }, in_n[3] = { 1, 1, 1 }, out_lo[3] = { 0, 0, 0 }, out_n[3] = { 1, 1, 1 }, s_lo[3] = { 0, 0, 0 },
      s_n[3] = { 1, 1, 1 }, w_lo[3] = { 0, 0, 0 }, w_n[3] = { 1, 1, 1 }, pad_lo[3] = { 0, 0, 0 };
  int logN = 0;
  vf::Desc dd;
  std::vector<vf::Desc> axes;
  bool overlap = true;
  for (int d = 0; d < D; ++d)
    {
      const AxisCfg& x = ax[d];
      in_lo[d] = x.a;
      in_n[d] = x.nin;
      out_lo[d] = x.c;
      out_n[d] = x.nout;
      s_lo[d] = x.slo;
      s_n[d] = x.shi - x.slo + 1;
      w_lo[d] = x.kmin;
      w_n[d] = x.L;
      logN += x.p;
      const int Mlo = x.c - (x.a + x.nin - 1), Mhi = x.c + x.nout - 1 - x.a;
      if (x.shi < Mlo || x.slo > Mhi)
        overlap = false;
      vf::Desc a1;
      a1.add("L", x.L).add("in_min", x.a).add("in_len", x.nin).add("out_min", x.c).add("out_len", x.nout).add("U_min", x.ulo);
      a1.add("S_min", x.slo).add("S_max", x.shi).add("kernel_array_min", x.kmin);
      axes.push_back(a1);
    }
  static const char* vnames[] = { "separate", "in-place", "pre-padded" };
  ctx.desc.add("mode", "filter").add("dim", D).add("variant", vnames[variant]).add("thin_kernel", thin).add("axes", axes);

  // true kernel on S, data on the input range
  const double kscale = std::pow(10., ctx.rng.uniform(-1, 1)), xscale = std::pow(10., ctx.rng.uniform(-2, 2));
  ND<double> k(D, s_lo, s_n), x(D, in_lo, in_n);
  for (auto& z : k.v)
    z = rnd_val(ctx.rng, kscale);
  if (thin_one)
    {
      int z0[3] = { 0, 0, 0 };
      k(z0) = 1.0;
    }
  const bool const_data = ctx.rng.coin(0.04);
  const float cval = rnd_val(ctx.rng, xscale);
  for (auto& z : x.v)
    z = const_data ? cval : rnd_val(ctx.rng, xscale);
  ctx.desc.add("kernel_scale", kscale).add("data_scale", xscale).add("constant_data", const_data);
  ctx.nontrivial = x.size() >= 4 && !is_constant(x) && overlap;

  ND<double> R(D, out_lo, out_n), A(D, out_lo, out_n);
  ND<int> cnt(D, out_lo, out_n);
  conv_ref(k, x, R, A, cnt);

  // ---- B1 ArrayFilterUsingRealDFTWithPadding
  {
    // periodic kernel array over the window [kmin, kmin+L-1]: element w holds k(m) for the m in U with m == w (mod L)
    ND<double> kw(D, w_lo, w_n);
    int w[3], m[3] = { 0, 0, 0 };
    kw.first(w);
    do
      {
        for (int d = 0; d < D; ++d)
          m[d] = ax[d].ulo + pmod(w[d] - ax[d].ulo, ax[d].L);
        kw(w) = k.inside(m) ? k(m) : 0.0;
      }
    while (kw.next(w));
    Array<D, float> karr(mkrange<D>(kw));
    to_stir(karr, kw);
    ctx.heartbeat("ArrayFilterUsingRealDFTWithPadding");
    shared_ptr<ArrayFilterUsingRealDFTWithPadding<D, float>> dft;
    const bool via_ctor = ctx.rng.coin();
    try
      {
        if (via_ctor)
          dft.reset(new ArrayFilterUsingRealDFTWithPadding<D, float>(karr));
        else
          {
            dft.reset(new ArrayFilterUsingRealDFTWithPadding<D, float>());
            if (dft->set_kernel(karr) != Succeeded::yes)
              throw vf::Skip("set_kernel returned Succeeded::no");
          }
      }
    catch (const vf::Skip&)
      {
        throw;
      }
    catch (const std::exception& e)
      {
        throw vf::Skip(std::string("DFT filter rejected kernel: ") + e.what());
      }
    Array<D, float> out;
    try
      {
        if (variant == 0)
          {
            Array<D, float> in(mkrange<D>(x));
            to_stir(in, x);
            out = Array<D, float>(mkrange<D>(R));
            out.fill(12345.F);
            (*dft)(out, in);
          }
        else if (variant == 1)
          {
            out = Array<D, float>(mkrange<D>(x));
            to_stir(out, x);
            (*dft)(out);
          }
        else
          {
            Array<D, float> in(mkrange<D>(pad_lo, w_n));
            in.fill(0.F);
            to_stir(in, x);
            out = Array<D, float>(mkrange<D>(pad_lo, w_n));
            out.fill(12345.F);
            (*dft)(out, in);
          }
      }
    catch (const std::exception& e)
      {
        // the kernel was accepted by set_kernel (documented: power-of-two length), so filtering must work
        ctx.violation(std::string("ArrayFilterUsingRealDFTWithPadding:throws-when-filtering")
                          + (ax[D - 1].L == 2 ? ":kernel-length-2-in-last-dimension(inverse_fourier_for_real_data-rejects-size-2)" : ""),
                      vf::fmt("kernel array range %s accepted by %s, operator() threw: %s", kw.shape().c_str(),
                              via_ctor ? "the constructor" : "set_kernel", e.what()));
        return;
      }
    const double band = fftband(logN + 3, 2 * norm1(k) * norm2(x) + norm2(k) * norm1(x));
    ND<double> got(D, out_lo, out_n);
    {
      int i[3];
      got.first(i);
      do
        got(i) = out[bc<D>(i)];
      while (got.next(i));
    }
    size_t wi = 0;
    const double err = diffnorm(got, R, &wi);
    note_ratio("dftfilter-" + tag, err, band);
    if (!(err <= band))
      {
        ctx.violation("ArrayFilterUsingRealDFTWithPadding<" + tag + ">:vs-direct-convolution:" + vnames[variant],
                      vf::fmt("||DFT-filter output - direct convolution||_2 = %.6g > band %.6g over output range %s; worst flat index %zu: got "
                              "%.9g expected %.9g",
                              err, band, R.shape().c_str(), wi, got.v[wi], R.v[wi]));
        return;
      }
    ctx.count("filter_vs_convolution_" + tag);
    ctx.count("dftfilter_variant_" + std::string(vnames[variant]));
    if (w_lo[0] != 0 || (D > 1 && w_lo[1] != 0) || (D > 2 && w_lo[2] != 0))
      ctx.count("dftfilter_kernel_not_from_0");
  }

  // ---- B2 direct-convolution classes with the same (non-periodic) kernel
  if (D == 1)
    {
      VectorWithOffset<float> kv(s_lo[0], s_lo[0] + s_n[0] - 1);
      for (int m = kv.get_min_index(); m <= kv.get_max_index(); ++m)
        kv[m] = static_cast<float>(k.v[static_cast<size_t>(m - s_lo[0])]);
      ArrayFilter1DUsingConvolution<float> conv(kv);
      Array<1, float> in(in_lo[0], in_lo[0] + in_n[0] - 1), out(out_lo[0], out_lo[0] + out_n[0] - 1);
      for (int i = 0; i < in_n[0]; ++i)
        in[in_lo[0] + i] = static_cast<float>(x.v[static_cast<size_t>(i)]);
      out.fill(12345.F);
      if (variant == 1)
        {
          out = in;
          conv(out);
        }
      else
        conv(out, in);
      std::string wit;
      if (!compare_direct<1>(out, R, A, cnt, wit, "conv1d"))
        {
          ctx.violation("ArrayFilter1DUsingConvolution:zero-bc:vs-float64-convolution", wit);
          return;
        }
      ctx.count("conv_direct_checks_1d");
    }
  else
    {
      // the whole sub-check runs in a child: is_trivial() of the 2-D/3-D classes indexes kernel[0][0]
      const bool outer_is_0 = s_lo[0] == 0 && s_n[0] == 1;
      auto subcheck = [&]() -> std::pair<int, std::string> {
        Array<D, float> karr(mkrange<D>(k));
        to_stir(karr, k);
        typename ConvTraits<D>::type conv(karr);
        Array<D, float> in(mkrange<D>(x)), out(mkrange<D>(R));
        to_stir(in, x);
        out.fill(12345.F);
        if (variant == 1)
          {
            out = in;
            conv(out);
          }
        else
          conv(out, in);
        std::string wit;
        if (!compare_direct<D>(out, R, A, cnt, wit, "convnd"))
          return { 10, wit };
        return { 0, "" };
      };
      // is_trivial() of these classes looks at kernel[0][0] when the outer range is [0,0], whatever the inner ranges are: such
      // kernels are filtered in a child process (fork is expensive under ASan, hence not for all kernels)
      ChildResult cr;
      if (outer_is_0)
        cr = run_in_child(subcheck);
      else
        {
          try
            {
              const std::pair<int, std::string> r = subcheck();
              cr.status = r.first;
              cr.text = r.second;
            }
          catch (const std::exception& e)
            {
              cr.status = 20;
              cr.text = e.what();
            }
        }
      const std::string cname = ConvTraits<D>::name();
      bool inner_has0 = true, inner_single = true;
      for (int d = 1; d < D; ++d)
        {
          if (s_lo[d] > 0 || s_lo[d] + s_n[d] - 1 < 0)
            inner_has0 = false;
          if (s_n[d] != 1)
            inner_single = false;
        }
      if (cr.status == 99)
        {
          ctx.violation(cname
                            + (outer_is_0 && !inner_has0 ? ":died:kernel-outer-range-[0,0]-inner-range-without-0(is_trivial-reads-kernel[0][0])"
                                                         : ":died"),
                        "kernel range " + k.shape() + ": " + cr.text);
          return;
        }
      if (cr.status == 20)
        throw vf::Skip(cname + " threw: " + cr.text);
      if (cr.status == 10)
        {
          int z0[3] = { 0, 0, 0 };
          const bool defect_class = outer_is_0 && inner_has0 && !inner_single && k(z0) == 1.0;
          ctx.violation(cname
                            + (defect_class ? ":kernel-with-outer-range-[0,0]-and-k[0][0]=1-treated-as-identity(is_trivial-ignores-inner-dimensions)"
                                            : ":vs-float64-convolution"),
                        "kernel range " + k.shape() + ": " + cr.text);
          return;
        }
      ctx.count("conv_direct_checks_" + tag);
      if (outer_is_0)
        ctx.count("conv_kernel_outer_range_0_0");
    }
  ctx.count("filter_vs_convolution_" + tag);

  // ---- B3 (1-D only) constant boundary conditions and the symmetric-kernel class
  if (D == 1)
    {
      const int a = in_lo[0], b = in_lo[0] + in_n[0] - 1;
      VectorWithOffset<float> kv(s_lo[0], s_lo[0] + s_n[0] - 1);
      for (int m = kv.get_min_index(); m <= kv.get_max_index(); ++m)
        kv[m] = static_cast<float>(k.v[static_cast<size_t>(m - s_lo[0])]);
      Array<1, float> in(a, b), out(out_lo[0], out_lo[0] + out_n[0] - 1);
      for (int i = a; i <= b; ++i)
        in[i] = static_cast<float>(x.v[static_cast<size_t>(i - a)]);
      ArrayFilter1DUsingConvolution<float> convc(kv, BoundaryConditions::constant);
      out.fill(12345.F);
      convc(out, in);
      ND<double> Rc(1, out_lo, out_n), Ac(1, out_lo, out_n);
      ND<int> cc(1, out_lo, out_n);
      for (int i = out_lo[0]; i < out_lo[0] + out_n[0]; ++i)
        {
          double r = 0, aa = 0;
          for (int m = s_lo[0]; m < s_lo[0] + s_n[0]; ++m)
            {
              const int j = std::min(b, std::max(a, i - m));
              const double t = k.v[static_cast<size_t>(m - s_lo[0])] * x.v[static_cast<size_t>(j - a)];
              r += t;
              aa += std::fabs(t);
            }
          const int ii[3] = { i, 0, 0 };
          Rc(ii) = r;
          Ac(ii) = aa;
          cc(ii) = s_n[0];
        }
      std::string wit;
      if (!compare_direct<1>(out, Rc, Ac, cc, wit, "conv1d-constbc"))
        {
          ctx.violation("ArrayFilter1DUsingConvolution:constant-bc:vs-float64-convolution", wit);
          return;
        }
      ctx.count("conv_bc_constant_checks");

      // symmetric kernel h[0..H], kernel[i] = h[|i|], in and out ranges equal
      const int H = static_cast<int>(ctx.rng.range(0, std::min(40, in_n[0] + 3)));
      VectorWithOffset<float> h(0, H);
      for (int j = 0; j <= H; ++j)
        h[j] = rnd_val(ctx.rng, kscale);
      ArrayFilter1DUsingConvolutionSymmetricKernel<float> sym(h);
      Array<1, float> so(in);
      if (ctx.rng.coin())
        sym(so);
      else
        {
          so.fill(12345.F);
          sym(so, in);
        }
      ND<double> Rs(1, in_lo, in_n), As(1, in_lo, in_n);
      ND<int> cs(1, in_lo, in_n);
      for (int i = a; i <= b; ++i)
        {
          double r = 0, aa = 0;
          int c = 0;
          for (int j = -H; j <= H; ++j)
            if (i + j >= a && i + j <= b)
              {
                const double t = static_cast<double>(h[std::abs(j)]) * x.v[static_cast<size_t>(i + j - a)];
                r += t;
                aa += std::fabs(t);
                ++c;
              }
          const int ii[3] = { i, 0, 0 };
          Rs(ii) = r;
          As(ii) = aa;
          cs(ii) = c;
        }
      if (!compare_direct<1>(so, Rs, As, cs, wit, "symconv"))
        {
          ctx.violation("ArrayFilter1DUsingConvolutionSymmetricKernel:vs-float64-convolution", wit);
          return;
        }
      ctx.count("symconv_checks");
    }
  ctx.count("filter_cases_" + tag);
}

// ================================================================== mode C: separable filters
// a 1-D linear filter acting in place on a line with index range [lo, lo+n-1]
struct Filt1D
{
  int type = 0;          // 0 convolution zero BC, 1 convolution constant BC, 2 symmetric kernel, 3 DFT with padding
  int klo = 0;           // first index of the kernel (type 2: 0)
  std::vector<float> k;  // kernel values (type 2: h[0..H])
  int L = 0, kmin = 0;   // type 3: padded length and first index of the periodic kernel array
  shared_ptr<ArrayFunctionObject<1, float>> stir;
  double k1 = 0, k2 = 0; // l1 / l2 norm of the kernel
  std::string describe() const
  {
    static const char* tn[] = { "conv-zero-bc", "conv-constant-bc", "symmetric", "dft-padded" };
    return vf::fmt("%s[%d,%d]", tn[type], klo, klo + static_cast<int>(k.size()) - 1) + (type == 3 ? vf::fmt("L%d@%d", L, kmin) : "");
  }
  double kval(int m) const // kernel value at offset m (out_i += kval(m)*in_{i-m})
  {
    if (type == 2)
      return std::abs(m) < static_cast<int>(k.size()) ? k[static_cast<size_t>(std::abs(m))] : 0.0;
    return (m >= klo && m < klo + static_cast<int>(k.size())) ? k[static_cast<size_t>(m - klo)] : 0.0;
  }
  // operator matrix T (n x n, row-major) for a line [lo, lo+n-1]; Tabs = sum of |coefficients| feeding each entry
  void matrix(int n, std::vector<double>& T, std::vector<double>& Tabs) const
  {
    T.assign(static_cast<size_t>(n) * n, 0.0);
    Tabs.assign(static_cast<size_t>(n) * n, 0.0);
    for (int i = 0; i < n; ++i)
      {
        if (type == 1)
          {
            for (int m = klo; m < klo + static_cast<int>(k.size()); ++m)
              {
                const int j = std::min(n - 1, std::max(0, i - m));
                T[static_cast<size_t>(i) * n + j] += kval(m);
                Tabs[static_cast<size_t>(i) * n + j] += std::fabs(kval(m));
              }
          }
        else
          for (int j = 0; j < n; ++j)
            {
              T[static_cast<size_t>(i) * n + j] = kval(i - j);
              Tabs[static_cast<size_t>(i) * n + j] = std::fabs(kval(i - j));
            }
      }
  }
};

static Filt1D
gen_filt1d(Rng& rng, int n, bool allow_dft)
{
  Filt1D f;
  const double u = rng.u01();
  f.type = u < 0.35 ? 0 : (u < 0.55 ? 1 : (u < 0.8 ? 2 : 3));
  if (f.type == 3 && !allow_dft)
    f.type = 0;
  const double scale = std::pow(10., rng.uniform(-0.7, 0.5));
  if (f.type == 2)
    {
      const int H = static_cast<int>(rng.range(0, 4));
      f.klo = 0;
      for (int j = 0; j <= H; ++j)
        f.k.push_back(rnd_val(rng, scale));
      VectorWithOffset<float> h(0, H);
      for (int j = 0; j <= H; ++j)
        h[j] = f.k[static_cast<size_t>(j)];
      f.stir.reset(new ArrayFilter1DUsingConvolutionSymmetricKernel<float>(h));
    }
  else if (f.type == 3)
    {
      int p = 2; // L=2 excluded here: filtering with a length-2 kernel throws (reported by the filter mode)
      while ((1 << p) < 2 * n)
        ++p;
      if (rng.coin(0.3))
        ++p;
      f.L = 1 << p;
      const int half = f.L / 2;
      const int len = static_cast<int>(rng.range(1, std::min(5, f.L)));
      f.klo = static_cast<int>(rng.range(std::max(-half, -4), std::min(half - len, 4)));
      for (int j = 0; j < len; ++j)
        f.k.push_back(rnd_val(rng, scale));
      const double v = rng.u01();
      f.kmin = v < 0.4 ? 0 : (v < 0.7 ? -half : static_cast<int>(rng.range(-f.L, f.L)));
      Array<1, float> karr(f.kmin, f.kmin + f.L - 1);
      for (int w = f.kmin; w < f.kmin + f.L; ++w)
        {
          const int m = -half + pmod(w + half, f.L); // representative in U=[-L/2, L/2-1]
          karr[w] = static_cast<float>(f.kval(m));
        }
      f.stir.reset(new ArrayFilterUsingRealDFTWithPadding<1, float>(karr));
    }
  else
    {
      const int len = static_cast<int>(rng.range(1, 7));
      f.klo = static_cast<int>(rng.range(-5, 3));
      for (int j = 0; j < len; ++j)
        f.k.push_back(rnd_val(rng, scale));
      if (rng.coin(0.1))
        { // identity
          f.klo = 0;
          f.k.assign(1, 1.f);
        }
      VectorWithOffset<float> kv(f.klo, f.klo + len - 1);
      if (f.k.size() == 1)
        kv = VectorWithOffset<float>(f.klo, f.klo);
      for (int j = 0; j < static_cast<int>(f.k.size()); ++j)
        kv[f.klo + j] = f.k[static_cast<size_t>(j)];
      f.stir.reset(new ArrayFilter1DUsingConvolution<float>(kv, f.type == 1 ? BoundaryConditions::constant : BoundaryConditions::zero));
    }
  for (size_t j = 0; j < f.k.size(); ++j)
    {
      const double w = (f.type == 2 && j > 0) ? 2.0 : 1.0; // symmetric: all but h[0] occur twice
      f.k1 += w * std::fabs(f.k[j]);
      f.k2 += w * static_cast<double>(f.k[j]) * f.k[j];
    }
  f.k2 = std::sqrt(f.k2);
  return f;
}

// one pass of a 1-D operator along axis ax on value V and rigorous error bound E (3-D arrays)
static void
pass_axis(ND<double>& V, ND<double>& E, int ax, const Filt1D& f)
{
  const int n = V.n[ax];
  std::vector<double> T, Tabs;
  f.matrix(n, T, Tabs);
  size_t stride = 1, outer = 1;
  for (int d = ax + 1; d < V.D; ++d)
    stride *= static_cast<size_t>(V.n[d]);
  for (int d = 0; d < ax; ++d)
    outer *= static_cast<size_t>(V.n[d]);
  int logL = 0;
  while ((1 << logL) < f.L)
    ++logL;
  std::vector<double> v(static_cast<size_t>(n)), e(static_cast<size_t>(n));
  for (size_t o = 0; o < outer; ++o)
    for (size_t s = 0; s < stride; ++s)
      {
        const size_t base = o * static_cast<size_t>(n) * stride + s;
        double l1 = 0, l2 = 0;
        for (int j = 0; j < n; ++j)
          {
            v[static_cast<size_t>(j)] = V.v[base + static_cast<size_t>(j) * stride];
            e[static_cast<size_t>(j)] = E.v[base + static_cast<size_t>(j) * stride];
            const double m = std::fabs(v[static_cast<size_t>(j)]) + e[static_cast<size_t>(j)];
            l1 += m;
            l2 += m * m;
          }
        l2 = std::sqrt(l2);
        for (int i = 0; i < n; ++i)
          {
            double r = 0, ab = 0, pr = 0;
            int c = 0;
            for (int j = 0; j < n; ++j)
              {
                const double t = T[static_cast<size_t>(i) * n + j], ta = Tabs[static_cast<size_t>(i) * n + j];
                if (ta == 0)
                  continue;
                r += t * v[static_cast<size_t>(j)];
                ab += ta * (std::fabs(v[static_cast<size_t>(j)]) + e[static_cast<size_t>(j)]);
                pr += ta * e[static_cast<size_t>(j)];
                ++c;
              }
            double band;
            if (f.type == 3)
              band = fftband(logL + 3, 2 * f.k1 * l2 + f.k2 * l1);
            else
              band = vf::band32(c + (f.type == 1 ? static_cast<int>(f.k.size()) : 0), ab);
            V.v[base + static_cast<size_t>(i) * stride] = r;
            E.v[base + static_cast<size_t>(i) * stride] = pr + band + 2 * EPS32 * std::fabs(r);
          }
      }
}

static bool
compare_banded(const ND<double>& got, const ND<double>& V, const ND<double>& E, std::string& wit, const std::string& rname)
{
  int i[3];
  V.first(i);
  do
    {
      const double err = std::fabs(got(i) - V(i));
      note_ratio(rname, err, E(i) + 1e-300);
      if (!(err <= E(i) + 1e-300))
        {
          wit = vf::fmt("element %s = %.9g, float64 reference %.9g (rigorous float32 error bound %.3g)", idxs(3, i).c_str(), got(i), V(i),
                        E(i));
          return false;
        }
    }
  while (V.next(i));
  return true;
}

static void
case_separable(Ctx& ctx)
{
  int lo[3], n[3];
  for (int d = 0; d < 3; ++d)
    {
      lo[d] = static_cast<int>(ctx.rng.range(-6, 6));
      n[d] = static_cast<int>(ctx.rng.range(1, 12));
    }
  const bool image_filter = ctx.rng.coin(0.3);
  Filt1D f[3];
  std::vector<std::string> fd;
  bool any_nonidentity = false;
  for (int d = 0; d < 3; ++d)
    {
      f[d] = gen_filt1d(ctx.rng, n[d], !image_filter);
      if (image_filter && f[d].type != 0)
        { // SeparableConvolutionImageFilter: zero-BC convolution kernels only
          Filt1D g;
          do
            g = gen_filt1d(ctx.rng, n[d], false);
          while (g.type != 0);
          if (ctx.rng.coin(0.5))
            { // make the index range symmetric about 0 (the usual way the class is used)
              const int h = static_cast<int>(g.k.size()) / 2;
              g.k.resize(static_cast<size_t>(2 * h + 1), 0.25f);
              g.klo = -h;
            }
          f[d] = g;
        }
      fd.push_back(f[d].describe());
      if (!(f[d].k.size() == 1 && f[d].k[0] == 1.f && f[d].klo == 0))
        any_nonidentity = true;
    }
  std::vector<int> perm = { 0, 1, 2 };
  ctx.rng.shuffle(perm);
  const double xscale = std::pow(10., ctx.rng.uniform(-2, 2));
  ND<double> x(3, lo, n);
  for (auto& z : x.v)
    z = rnd_val(ctx.rng, xscale);
  ctx.desc.add("mode", image_filter ? "separable-imagefilter" : "separable").add("lo", std::vector<int>(lo, lo + 3));
  ctx.desc.add("sizes", std::vector<int>(n, n + 3)).add("filters", fd).add("manual_order", perm).add("data_scale", xscale);
  ctx.nontrivial = x.size() >= 4 && any_nonidentity && !is_constant(x);

  // reference in STIR's order (axis 1,2,3) and in the permuted order
  ND<double> V = x, E(3, lo, n), Vp = x, Ep(3, lo, n);
  for (int d = 0; d < 3; ++d)
    pass_axis(V, E, d, f[d]);
  for (int q = 0; q < 3; ++q)
    pass_axis(Vp, Ep, perm[static_cast<size_t>(q)], f[perm[static_cast<size_t>(q)]]);
  { // the two float64 references agree (operators on different axes commute): sanity of the oracle itself
    for (size_t i = 0; i < V.v.size(); ++i)
      if (std::fabs(V.v[i] - Vp.v[i]) > 1e-9 * (std::fabs(V.v[i]) + E.v[i] + Ep.v[i]) + 1e-300)
        throw std::runtime_error("C19 harness oracle error: axis operators do not commute in float64");
  }

  if (image_filter)
    {
      // SeparableConvolutionImageFilter: constructed from the three kernels, applied to an image; whole sub-check in a child
      ctx.heartbeat("SeparableConvolutionImageFilter");
      bool symmetric = true, right_heavy = false;
      for (int d = 0; d < 3; ++d)
        {
          const int khi = f[d].klo + static_cast<int>(f[d].k.size()) - 1;
          if (f[d].klo != -khi)
            symmetric = false;
          if (khi + f[d].klo > 0)
            right_heavy = true;
        }
      const bool two_arg = ctx.rng.coin(0.4);
      const ChildResult cr = run_in_child([&]() -> std::pair<int, std::string> {
        VectorWithOffset<VectorWithOffset<float>> kv(3);
        for (int d = 0; d < 3; ++d)
          {
            kv[d] = VectorWithOffset<float>(f[d].klo, f[d].klo + static_cast<int>(f[d].k.size()) - 1);
            for (int j = 0; j < static_cast<int>(f[d].k.size()); ++j)
              kv[d][f[d].klo + j] = f[d].k[static_cast<size_t>(j)];
          }
        SeparableConvolutionImageFilter<float> filt(kv);
        VoxelsOnCartesianGrid<float> img(mkrange<3>(x), CartesianCoordinate3D<float>(0.F, 0.F, 0.F),
                                         CartesianCoordinate3D<float>(2.F, 1.5F, 1.F));
        to_stir<3>(img, x);
        ND<double> got(3, lo, n);
        if (two_arg)
          {
            VoxelsOnCartesianGrid<float> out(img);
            out.fill(12345.F);
            if (filt.apply(out, img) != Succeeded::yes)
              return { 20, "apply returned Succeeded::no" };
            from_stir<3>(got, out);
          }
        else
          {
            if (filt.apply(img) != Succeeded::yes)
              return { 20, "apply returned Succeeded::no" };
            from_stir<3>(got, img);
          }
        std::string wit;
        if (!compare_banded(got, V, E, wit, "sepconv-imagefilter"))
          return { 10, wit };
        return { 0, "" };
      });
      // input classes: all ranges symmetric / some range reaching further to the right of 0 than to the left / other
      const std::string cls = symmetric ? "kernel-index-ranges-symmetric-about-0"
                                        : (right_heavy ? "a-kernel-range-with-max_index>-min_index" : "kernel-ranges-asymmetric-left-heavy");
      if (cr.status == 20)
        throw vf::Skip("SeparableConvolutionImageFilter: " + cr.text);
      if (right_heavy && (cr.status == 99 || cr.status == 10))
        {
          // one defect, two faces: the constructor indexes its parsing copy past the end (ASan/glibc abort), or the stray
          // writes corrupt neighbouring heap data and the result is wrong (release build)
          ctx.violation("SeparableConvolutionImageFilter:" + cls + ":constructor-writes-past-its-buffer(died-or-corrupted-result)",
                        (cr.status == 99 ? "died: " : "wrong result: ") + cr.text);
          return;
        }
      if (cr.status == 99)
        {
          ctx.violation("SeparableConvolutionImageFilter:died:" + cls, cr.text);
          return;
        }
      if (cr.status == 10)
        {
          ctx.violation("SeparableConvolutionImageFilter:vs-successive-1d-convolutions:" + cls, cr.text);
          return;
        }
      ctx.count("sepconv_imagefilter_checks");
      ctx.count(symmetric ? "sepconv_imagefilter_symmetric_ranges" : "sepconv_imagefilter_asymmetric_ranges");
      if (right_heavy)
        ctx.count("sepconv_imagefilter_right_heavy_ranges");
      return;
    }

  // SeparableArrayFunctionObject
  ctx.heartbeat("SeparableArrayFunctionObject");
  const int first = ctx.rng.coin() ? 0 : 1;
  VectorWithOffset<shared_ptr<ArrayFunctionObject<1, float>>> filters(first, first + 2);
  for (int d = 0; d < 3; ++d)
    filters[first + d] = f[d].stir;
  SeparableArrayFunctionObject<3, float> sep(filters);
  Array<3, float> arr(mkrange<3>(x));
  to_stir<3>(arr, x);
  ND<double> got(3, lo, n);
  if (ctx.rng.coin(0.3))
    {
      Array<3, float> out(mkrange<3>(x));
      out.fill(12345.F);
      sep(out, arr);
      from_stir<3>(got, out);
    }
  else
    {
      sep(arr);
      from_stir<3>(got, arr);
    }
  std::string wit;
  if (!compare_banded(got, V, E, wit, "separable"))
    {
      ctx.violation("SeparableArrayFunctionObject:vs-successive-1d-filters", wit);
      return;
    }
  ctx.count("separable_checks");
  // the same STIR 1-D filters applied by hand, line by line, in the permuted axis order
  ND<double> cur = x;
  for (int q = 0; q < 3; ++q)
    {
      const int axd = perm[static_cast<size_t>(q)];
      const int nn = n[axd];
      size_t stride = 1, outer = 1;
      for (int d = axd + 1; d < 3; ++d)
        stride *= static_cast<size_t>(n[d]);
      for (int d = 0; d < axd; ++d)
        outer *= static_cast<size_t>(n[d]);
      for (size_t o = 0; o < outer; ++o)
        for (size_t s = 0; s < stride; ++s)
          {
            const size_t base = o * static_cast<size_t>(nn) * stride + s;
            Array<1, float> line(lo[axd], lo[axd] + nn - 1);
            for (int j = 0; j < nn; ++j)
              line[lo[axd] + j] = static_cast<float>(cur.v[base + static_cast<size_t>(j) * stride]);
            (*f[axd].stir)(line);
            for (int j = 0; j < nn; ++j)
              cur.v[base + static_cast<size_t>(j) * stride] = line[lo[axd] + j];
          }
    }
  if (!compare_banded(cur, Vp, Ep, wit, "separable-permuted"))
    {
      ctx.violation("separable:1d-filters-in-permuted-axis-order:vs-float64-reference", wit);
      return;
    }
  // and directly against each other (both within their bands of the same exact result)
  {
    int i[3];
    V.first(i);
    do
      if (!(std::fabs(got(i) - cur(i)) <= E(i) + Ep(i) + 1e-300))
        {
          ctx.violation("SeparableArrayFunctionObject:differs-from-1d-filters-in-permuted-order",
                        vf::fmt("element %s: separable %.9g, successive 1-D filters in order (%d,%d,%d) %.9g, bound %.3g", idxs(3, i).c_str(),
                                got(i), cur(i), perm[0] + 1, perm[1] + 1, perm[2] + 1, E(i) + Ep(i)));
          return;
        }
    while (V.next(i));
  }
  ctx.count("separable_order_checks");
  for (int d = 0; d < 3; ++d)
    ctx.count(vf::fmt("separable_filter_type_%d", f[d].type));
}

// ================================================================== mode D: separable Gaussian
static void
case_gaussian(Ctx& ctx)
{
  float vox[3], fwhm_mm[3], fwhm_vox[3];
  int maxk[3], Hgen[3], lo[3], n[3], extra[3], e0[3];
  const bool via_image = ctx.rng.coin(0.4);
  const bool scalar_ctor = !via_image && ctx.rng.coin(0.15);
  for (int attempt = 0;; ++attempt)
    {
      for (int d = 0; d < 3; ++d)
        {
          vox[d] = via_image ? static_cast<float>(std::pow(10., ctx.rng.uniform(-0.3, 0.7))) : 1.F;
          const double u = ctx.rng.u01();
          double r = u < 0.15 ? 0. : (u < 0.65 ? ctx.rng.uniform(0.2, 3.) : ctx.rng.uniform(3., 7.));
          if (attempt > 3)
            r *= 0.5;
          fwhm_mm[d] = static_cast<float>(r) * vox[d];
          const double w = ctx.rng.u01();
          // 0 is documented as an error (rejected -> skip); not sent through the image filter, whose DataProcessor base asserts
          // in its timer destructor when set_up throws (unrelated to this property)
          maxk[d] = w < 0.5 ? -1 : ((w < 0.99 || via_image) ? static_cast<int>(ctx.rng.range(1, 25)) : 0);
          if (scalar_ctor && d > 0)
            {
              fwhm_mm[d] = fwhm_mm[0];
              maxk[d] = maxk[0];
            }
          fwhm_vox[d] = fwhm_mm[d] / vox[d];
          const double sigma = fwhm_vox[d] / 2.3548200450309493;
          Hgen[d] = fwhm_vox[d] == 0 ? 0 : (maxk[d] > 0 ? maxk[d] / 2 : static_cast<int>(std::ceil(6 * sigma)) + 2);
          extra[d] = static_cast<int>(ctx.rng.range(0, 5));
          e0[d] = static_cast<int>(ctx.rng.range(0, extra[d]));
          n[d] = 2 * Hgen[d] + 1 + extra[d];
          lo[d] = static_cast<int>(ctx.rng.range(-8, 8));
        }
      if (static_cast<long>(n[0]) * n[1] * n[2] <= 150000)
        break;
    }
  ctx.desc.add("mode", "gaussian").add("via_image_filter", via_image).add("scalar_ctor", scalar_ctor);
  ctx.desc.add("voxel_mm", std::vector<float>(vox, vox + 3)).add("fwhm_mm", std::vector<float>(fwhm_mm, fwhm_mm + 3));
  ctx.desc.add("max_kernel_sizes", std::vector<int>(maxk, maxk + 3)).add("lo", std::vector<int>(lo, lo + 3));
  ctx.desc.add("sizes", std::vector<int>(n, n + 3));
  ctx.heartbeat("SeparableGaussian construction");

  shared_ptr<SeparableGaussianArrayFilter<3, float>> afilt;
  if (!via_image)
    {
      try
        {
          if (scalar_ctor)
            afilt.reset(new SeparableGaussianArrayFilter<3, float>(fwhm_vox[0], static_cast<float>(maxk[0]), true));
          else
            afilt.reset(new SeparableGaussianArrayFilter<3, float>(make_coordinate(fwhm_vox[0], fwhm_vox[1], fwhm_vox[2]),
                                                                    make_coordinate(maxk[0], maxk[1], maxk[2]), true));
        }
      catch (const std::exception& e)
        {
          throw vf::Skip(std::string("SeparableGaussianArrayFilter rejected parameters: ") + e.what());
        }
    }
  auto apply = [&](Array<3, float>& arr) {
    if (!via_image)
      {
        (*afilt)(arr);
        return;
      }
    SeparableGaussianImageFilter<float> f;
    f.set_fwhms(make_coordinate(fwhm_mm[0], fwhm_mm[1], fwhm_mm[2]));
    f.set_max_kernel_sizes(make_coordinate(maxk[0], maxk[1], maxk[2]));
    f.set_normalise(true);
    VoxelsOnCartesianGrid<float> img(arr, CartesianCoordinate3D<float>(0.F, 0.F, 0.F), CartesianCoordinate3D<float>(vox[0], vox[1], vox[2]));
    try
      {
        if (f.apply(img) != Succeeded::yes)
          throw vf::Skip("SeparableGaussianImageFilter::apply returned Succeeded::no");
      }
    catch (const vf::Skip&)
      {
        throw;
      }
    catch (const std::exception& e)
      {
        throw vf::Skip(std::string("SeparableGaussianImageFilter rejected parameters: ") + e.what());
      }
    arr = img;
  };
  const std::string cls = via_image ? "SeparableGaussianImageFilter" : "SeparableGaussianArrayFilter";

  // ---- impulse response = the kernel; its sum must be one
  const float a = static_cast<float>((ctx.rng.coin() ? 1 : -1) * std::pow(10., ctx.rng.uniform(-0.3, 1.7)));
  int cpos[3];
  for (int d = 0; d < 3; ++d)
    cpos[d] = lo[d] + Hgen[d] + e0[d];
  Array<3, float> psf(mkrange<3>(lo, n));
  psf.fill(0.F);
  psf[bc<3>(cpos)] = a;
  apply(psf);
  {
    std::string got;
    if (!shape_is(psf, lo, n, got))
      {
        ctx.violation(cls + ":index-range-changed", "range after filtering " + got);
        return;
      }
  }
  ND<double> P(3, lo, n);
  from_stir<3>(P, psf);
  double S = 0;
  int H[3] = { 0, 0, 0 };
  bool any_nan = false;
  {
    int i[3];
    P.first(i);
    do
      {
        const double v = P(i);
        if (!(v == v))
          any_nan = true;
        S += v;
        if (v != 0)
          for (int d = 0; d < 3; ++d)
            H[d] = std::max(H[d], std::abs(i[d] - cpos[d]));
      }
    while (P.next(i));
  }
  if (any_nan)
    {
      ctx.violation(cls + ":nan-in-impulse-response", "impulse response contains NaN");
      return;
    }
  for (int d = 0; d < 3; ++d)
    if (H[d] > Hgen[d])
      {
        ctx.count("gaussian_support_wider_than_expected");
        return; // cannot be sure the whole kernel was captured: nothing is concluded
      }
  ctx.desc.add("measured_half_widths", std::vector<int>(H, H + 3));
  {
    const double band = 8 * EPS32;
    note_ratio("gaussian-sum", std::fabs(S / a - 1), band);
    if (!(std::fabs(S / a - 1) <= band))
      {
        ctx.violation(cls + ":kernel-sum-not-one",
                      vf::fmt("sum of the response to an impulse of %.9g is %.9g: kernel sum %.9g, |sum-1| = %.3g > %.3g (half widths %d,%d,%d)",
                              static_cast<double>(a), S, S / a, std::fabs(S / a - 1), band, H[0], H[1], H[2]));
        return;
      }
    ctx.count("gaussian_impulse_checks");
  }
  // ---- data constant over a box: constant preserved wherever the kernel support stays inside the box
  const float c = static_cast<float>((ctx.rng.coin() ? 1 : -1) * std::pow(10., ctx.rng.uniform(-1, 3)));
  int blo[3], bhi[3];
  long interior = 1;
  for (int d = 0; d < 3; ++d)
    {
      blo[d] = lo[d];
      bhi[d] = lo[d] + n[d] - 1;
      for (int t = 0; t < 2; ++t)
        if (bhi[d] - blo[d] + 1 > 2 * H[d] + 1 && ctx.rng.coin(0.5))
          (ctx.rng.coin() ? ++blo[d] : --bhi[d]);
      interior *= std::max(0, (bhi[d] - H[d]) - (blo[d] + H[d]) + 1);
    }
  ND<double> x(3, lo, n);
  {
    int i[3];
    x.first(i);
    do
      {
        bool inbox = true;
        for (int d = 0; d < 3; ++d)
          if (i[d] < blo[d] || i[d] > bhi[d])
            inbox = false;
        x(i) = inbox ? c : rnd_val(ctx.rng, std::fabs(c));
      }
    while (x.next(i));
  }
  Array<3, float> arr(mkrange<3>(lo, n));
  to_stir<3>(arr, x);
  apply(arr);
  double ops = 0;
  for (int d = 0; d < 3; ++d)
    ops += 2 * H[d] + 1 + 2;
  const double band = std::fabs(c) * EPS32 * ops;
  long checked = 0;
  {
    int i[3];
    x.first(i);
    do
      {
        bool in = true;
        for (int d = 0; d < 3; ++d)
          if (i[d] < blo[d] + H[d] || i[d] > bhi[d] - H[d])
            in = false;
        if (!in)
          continue;
        const double got = arr[bc<3>(i)];
        ++checked;
        note_ratio("gaussian-mean", std::fabs(got - c), band);
        if (!(std::fabs(got - c) <= band))
          {
            ctx.violation(cls + ":constant-not-preserved",
                          vf::fmt("data = %.9g on box [%d,%d]x[%d,%d]x[%d,%d]; filtered value at %s (kernel support inside the box) is %.9g, band "
                                  "%.3g",
                                  static_cast<double>(c), blo[0], bhi[0], blo[1], bhi[1], blo[2], bhi[2], idxs(3, i).c_str(), got, band));
            return;
          }
      }
    while (x.next(i));
  }
  ctx.count("gaussian_mean_checks");
  ctx.count("gaussian_interior_points", checked);
  if (via_image)
    ctx.count("gaussian_imagefilter_cases");
  for (int d = 0; d < 3; ++d)
    if (maxk[d] > 0 && H[d] == maxk[d] / 2 && H[d] > 0)
      {
        ctx.count("gaussian_truncated_by_max_kernel_size");
        break;
      }
  ctx.nontrivial = (H[0] > 0 || H[1] > 0 || H[2] > 0) && checked > 0;
}

// ================================================================== mode E: separable Metz at power 0
struct MetzLine
{
  std::vector<double> r; // response / amplitude, centred at index Hcap
  int H = 0;             // measured half width
  double sum = 0, abs = 0;
};
static MetzLine
metz_line(const SeparableMetzArrayFilter<3, float>& f, int ax, int Hcap, float a)
{
  int n[3] = { 1, 1, 1 }, lo[3] = { 0, 0, 0 }, c[3] = { 0, 0, 0 };
  n[ax] = 2 * Hcap + 1;
  Array<3, float> arr(mkrange<3>(lo, n));
  arr.fill(0.F);
  c[ax] = Hcap;
  arr[bc<3>(c)] = a;
  f(arr);
  MetzLine m;
  m.r.resize(static_cast<size_t>(n[ax]));
  for (int j = 0; j < n[ax]; ++j)
    {
      c[ax] = j;
      const double v = static_cast<double>(arr[bc<3>(c)]) / a;
      m.r[static_cast<size_t>(j)] = v;
      m.sum += v;
      m.abs += std::fabs(v);
      if (v != 0)
        m.H = std::max(m.H, std::abs(j - Hcap));
    }
  return m;
}

static void
case_metz(Ctx& ctx)
{
  const int Hcap = 600;
  VectorWithOffset<float> fwhms(1, 3), powers(1, 3);
  VectorWithOffset<int> maxk(1, 3);
  float vox[3];
  std::vector<float> dfw, dvox;
  std::vector<int> dmk;
  for (int d = 0; d < 3; ++d)
    {
      vox[d] = static_cast<float>(std::pow(10., ctx.rng.uniform(-0.5, 0.8)));
      const bool active = ctx.rng.coin(0.75);
      const double ratio = ctx.rng.coin(0.5) ? ctx.rng.uniform(0.4, 3.) : ctx.rng.uniform(3., 8.);
      fwhms[d + 1] = active ? static_cast<float>(ratio) * vox[d] : 0.F;
      powers[d + 1] = 0.F;
      maxk[d + 1] = ctx.rng.coin(0.5) ? -1 : static_cast<int>(ctx.rng.range(1, 41));
      dfw.push_back(fwhms[d + 1]);
      dvox.push_back(vox[d]);
      dmk.push_back(maxk[d + 1]);
    }
  ctx.desc.add("mode", "metz").add("fwhm_mm", dfw).add("sampling_mm", dvox).add("max_kernel_sizes", dmk).add("power", 0);
  ctx.heartbeat("SeparableMetzArrayFilter construction");
  const BasicCoordinate<3, float> sd = make_coordinate(vox[0], vox[1], vox[2]);
  shared_ptr<SeparableMetzArrayFilter<3, float>> f;
  try
    {
      f.reset(new SeparableMetzArrayFilter<3, float>(fwhms, powers, sd, maxk));
    }
  catch (const std::exception& e)
    {
      throw vf::Skip(std::string("SeparableMetzArrayFilter rejected parameters: ") + e.what());
    }
  const float a = static_cast<float>(std::pow(10., ctx.rng.uniform(-0.3, 1.7)));
  MetzLine L[3];
  for (int d = 0; d < 3; ++d)
    L[d] = metz_line(*f, d, Hcap, a);
  double P0;
  {
    int one[3] = { 1, 1, 1 }, z[3] = { 0, 0, 0 };
    Array<3, float> arr(mkrange<3>(z, one));
    arr[bc<3>(z)] = a;
    (*f)(arr);
    P0 = static_cast<double>(arr[bc<3>(z)]) / a;
  }
  int H[3];
  for (int d = 0; d < 3; ++d)
    {
      H[d] = L[d].H;
      if (!(L[d].sum == L[d].sum))
        {
          ctx.violation("SeparableMetzArrayFilter:power0:nan-in-impulse-response", vf::fmt("NaN in response along dimension %d", d + 1));
          return;
        }
      if (H[d] > Hcap - 2)
        {
          ctx.count("metz_support_not_captured");
          return; // kernel longer than the probe line: nothing concluded
        }
    }
  ctx.desc.add("measured_half_widths", std::vector<int>(H, H + 3));
  if (!(std::fabs(P0) > 1e-6))
    {
      ctx.count("metz_degenerate_centre");
      return;
    }
  // each line response is (kernel of that axis) x (centre coefficients of the other two): the 3-D kernel sum is
  const double S = L[0].sum * L[1].sum * L[2].sum / (P0 * P0);
  const double Aprod = L[0].abs * L[1].abs * L[2].abs / (P0 * P0);
  bool any_active = H[0] > 0 || H[1] > 0 || H[2] > 0;
  ctx.nontrivial = any_active;
  // Which axes are cut by max_kernel_size?  (compare with the unrestricted filter, decided before looking at the sum.)
  // A kernel cut by max_kernel_size is documented NOT to be renormalised (STIR-UsersGuide, Separable Cartesian Metz, rule
  // (iii): "The spatial kernel width can be limited, which will set any other values to 0"), so it is not one of the
  // "filters whose kernel sums to one" the property speaks about: its sum is not judged (counted), only that the response
  // to constant data is constant x (measured kernel sum) as for any convolution.
  bool cut = false;
  if (maxk[1] > 0 || maxk[2] > 0 || maxk[3] > 0)
    {
      VectorWithOffset<int> nomax(1, 3);
      nomax.fill(-1);
      SeparableMetzArrayFilter<3, float> g(fwhms, powers, sd, nomax);
      for (int d = 0; d < 3; ++d)
        if (maxk[d + 1] > 0 && H[d] < metz_line(g, d, Hcap, a).H)
          cut = true;
    }
  ctx.desc.add("cut_by_max_kernel_size", cut);
  if (cut)
    ctx.count("metz_cut_by_max_kernel_size_sum_not_judged");
  else
    {
      // tolerance: the library's own acceptance criterion (test_SeparableMetzArrayFilter: 3-D sum within 1e-3 of 1 at power 0);
      // the discretisation (band limit at the sampling frequency, coefficients below 1e-4 of the peak dropped) is not exact
      const double tol = 1e-3;
      note_ratio("metz-sum", std::fabs(S - 1), tol);
      if (!(std::fabs(S - 1) <= tol))
        {
          ctx.violation("SeparableMetzArrayFilter:power0:kernel-sum-not-one",
                        vf::fmt("3-D kernel sum (from impulse responses) = %.6g, |sum-1| = %.3g > %.0e; per-dimension sums x centre products: "
                                "%.6g %.6g %.6g, centre product %.6g; half widths %d,%d,%d; no dimension cut by max_kernel_size",
                                S, std::fabs(S - 1), tol, L[0].sum, L[1].sum, L[2].sum, P0, H[0], H[1], H[2]));
          return;
        }
      ctx.count("metz_checks");
      ctx.count("metz_sum_checks");
    }
  // ---- response to data constant over a box = constant x kernel sum wherever the support stays inside the box
  int lo[3], n[3], blo[3], bhi[3];
  long total = 1;
  for (int d = 0; d < 3; ++d)
    {
      lo[d] = static_cast<int>(ctx.rng.range(-8, 8));
      n[d] = 2 * H[d] + 1 + static_cast<int>(ctx.rng.range(0, 4));
      total *= n[d];
    }
  if (total > 40000)
    {
      ctx.count("metz_3d_skipped_large_support");
      return;
    }
  for (int d = 0; d < 3; ++d)
    {
      blo[d] = lo[d];
      bhi[d] = lo[d] + n[d] - 1;
      for (int t = 0; t < 2; ++t)
        if (bhi[d] - blo[d] + 1 > 2 * H[d] + 1 && ctx.rng.coin(0.5))
          (ctx.rng.coin() ? ++blo[d] : --bhi[d]);
    }
  const float c = static_cast<float>((ctx.rng.coin() ? 1 : -1) * std::pow(10., ctx.rng.uniform(-1, 3)));
  ND<double> x(3, lo, n);
  {
    int i[3];
    x.first(i);
    do
      {
        bool inbox = true;
        for (int d = 0; d < 3; ++d)
          if (i[d] < blo[d] || i[d] > bhi[d])
            inbox = false;
        x(i) = inbox ? c : rnd_val(ctx.rng, std::fabs(c));
      }
    while (x.next(i));
  }
  Array<3, float> arr(mkrange<3>(lo, n));
  to_stir<3>(arr, x);
  (*f)(arr);
  double ops = 0;
  for (int d = 0; d < 3; ++d)
    ops += 2 * H[d] + 1 + 2;
  const double band = std::fabs(c) * EPS32 * (2 * Aprod * ops + 16 * std::fabs(S));
  long checked = 0;
  {
    int i[3];
    x.first(i);
    do
      {
        bool in = true;
        for (int d = 0; d < 3; ++d)
          if (i[d] < blo[d] + H[d] || i[d] > bhi[d] - H[d])
            in = false;
        if (!in)
          continue;
        const double got = arr[bc<3>(i)];
        ++checked;
        note_ratio("metz-mean", std::fabs(got - c * S), band);
        if (!(std::fabs(got - c * S) <= band))
          {
            ctx.violation("SeparableMetzArrayFilter:power0:constant-response-differs-from-kernel-sum",
                          vf::fmt("data = %.9g on box [%d,%d]x[%d,%d]x[%d,%d]; filtered value at %s is %.9g, constant x kernel sum = %.9g, band "
                                  "%.3g",
                                  static_cast<double>(c), blo[0], bhi[0], blo[1], bhi[1], blo[2], bhi[2], idxs(3, i).c_str(), got, c * S,
                                  band));
            return;
          }
      }
    while (x.next(i));
  }
  ctx.count("metz_checks");
  ctx.count("metz_mean_checks");
  ctx.count("metz_interior_points", checked);
}

// ================================================================== dispatch
static int
rand_p(Rng& r, int lo, int hi)
{
  return static_cast<int>(r.range(lo, hi));
}

static void
run_case(Ctx& ctx)
{
  const long m = ctx.idx % 10, q = ctx.idx / 10;
  if (m <= 3)
    {
      const long seq = q * 4 + m;
      const int D = 1 + static_cast<int>(seq % 3);
      const int sign = ctx.rng.coin() ? 1 : -1;
      int n[3] = { 1, 1, 1 };
      if (D == 1)
        {
          n[0] = 1 << (1 + static_cast<int>((seq / 3) % 10)); // every power of two 2..1024 in turn
          case_dft<1>(ctx, n, sign);
        }
      else if (D == 2)
        {
          int p0, p1;
          do
            {
              p0 = ctx.rng.coin(0.1) ? 0 : rand_p(ctx.rng, 1, 7);
              p1 = rand_p(ctx.rng, 1, 7);
            }
          while (p0 + p1 > 13);
          n[0] = 1 << p0;
          n[1] = 1 << p1;
          case_dft<2>(ctx, n, sign);
        }
      else
        {
          int p0, p1, p2;
          do
            {
              p0 = ctx.rng.coin(0.1) ? 0 : rand_p(ctx.rng, 1, 5);
              p1 = ctx.rng.coin(0.1) ? 0 : rand_p(ctx.rng, 1, 5);
              p2 = rand_p(ctx.rng, 1, 5);
            }
          while (p0 + p1 + p2 > 13);
          n[0] = 1 << p0;
          n[1] = 1 << p1;
          n[2] = 1 << p2;
          case_dft<3>(ctx, n, sign);
        }
    }
  else if (m <= 6)
    {
      const long seq = q * 3 + (m - 4);
      const int D = 1 + static_cast<int>(seq % 3);
      int p[3] = { 1, 1, 1 };
      if (D == 1)
        {
          p[0] = 1 + static_cast<int>((seq / 3) % 10);
          case_filter<1>(ctx, p);
        }
      else if (D == 2)
        {
          do
            {
              p[0] = rand_p(ctx.rng, 1, 6);
              p[1] = rand_p(ctx.rng, 1, 6);
            }
          while (p[0] + p[1] > 10);
          case_filter<2>(ctx, p);
        }
      else
        {
          do
            {
              p[0] = rand_p(ctx.rng, 1, 4);
              p[1] = rand_p(ctx.rng, 1, 4);
              p[2] = rand_p(ctx.rng, 1, 4);
            }
          while (p[0] + p[1] + p[2] > 10);
          case_filter<3>(ctx, p);
        }
    }
  else if (m == 7)
    case_separable(ctx);
  else if (m == 8)
    case_gaussian(ctx);
  else
    case_metz(ctx);
}

int
main(int argc, char** argv)
{
  vg::quiet();
  g_debug = std::getenv("VERIF_C19_DEBUG") != nullptr;
  bool has_out = false;
  for (int i = 1; i < argc; ++i)
    if (std::string(argv[i]) == "--out")
      has_out = true;
  if (has_out) // SeparableMetzArrayFilter printf()s every kernel coefficient
    {
      FILE* r = std::freopen("/dev/null", "w", stdout);
      (void)r;
    }
  const int rc = vf::verif_main(argc, argv, "C19", run_case);
  dump_ratios();
  return rc;
}
