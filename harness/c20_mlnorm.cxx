// C20: component-based normalisation utilities (stir/ML_norm.h, ML_estimate_component_based_normalisation)
// DESIGN.md §6 C20.
//
// One case = one generated cylindrical scanner (block / bucket structure, with or without the hard-wired virtual
// crystals of the Siemens mMR / ECAT 1080 scanner *types*), a span-1 non-arc-corrected template (max ring difference,
// number of tangential positions = fan size) and
//   (1) make_fan_data_remove_gaps on data with a unique value per bin: every FanProjData entry equals the value of the bin
//       that ProjDataInfoCylindricalNoArcCorr::get_bin_for_det_pair assigns to the (un-compressed) detector pair, entries
//       without a bin are 0; set_fan_data_add_gaps(make_fan_data_remove_gaps(x)) == x off gaps, gaps == gap_value;
//   (2) apply_efficiencies / apply_geo_norm / apply_block_norm multiply every entry by the product of the two detectors'
//       factors / the factor of the symmetry class / the factor of the block pair; apply=false restores (<= 4 ulp);
//   (3) fixed points of iterate_efficiencies / iterate_geo_norm / iterate_block_norm on exact model data; all numbers are
//       small integers times powers of two, so every float32 operation is exact and the comparison is bit-exact
//       (independent of summation order); a second run with generic random factors uses a computed band; the "version
//       without model" of iterate_efficiencies / make_fan_sum_data is checked the same way with data generated from the
//       unit model through the FanProjData route and through make_fan_sum_data(sums, efficiencies, max_ring_diff, half_fan);
//   (4) KL(data || model) (each LOR once, float64, independent of STIR) does not increase over any iterate_efficiencies
//       sweep on Poisson data; STIR's KL(FanProjData) is checked where it is proportional to that sum;
//   (5) the same for the 2D (DetPairData) variants on one sinogram (scanners without virtual crystals);
//   (6) ML_estimate_component_based_normalisation run in ctx.tmpdir, KL reports captured from the info channel: no exception,
//       parseable efficiency output of the physical dimensions, reported KL non-increasing over the efficiency sub-iterations
//       of every outer iteration (where STIR's KL value is proportional to the KL distance: compressed max ring difference 0).
#include "common/verif.h"
#include "common/gen.h"
#include "stir/ML_norm.h"
#include "stir/ProjDataInMemory.h"
#include "stir/ExamInfo.h"
#include "stir/SegmentBySinogram.h"
#include "stir/IndexRange2D.h"
#include "stir/stream.h"
#include "stir/DetectionPositionPair.h"
#include "stir/recon_buildblock/ML_estimate_component_based_normalisation.h"
#include <fstream>
#include <numeric>

using namespace stir;
using vf::Ctx;

// ------------------------------------------------------------------------------------------------ layout
struct Lay
{
  int vk = 0;         // 0: no virtual crystals, 1: transaxial only (type Siemens_mMR), 2: both (type E1080)
  int vt = 0, va = 0; // virtual crystals per block
  int Ct = 1, Ca = 1; // crystals per block including virtual
  int Ctp = 1, Cap = 1;
  int nbT = 2, nbA = 1, bpbT = 1, bpbA = 1;
  int N = 8, R = 1;   // all detectors per ring / rings (incl. virtual)
  int Np = 8, Rp = 1; // physical
  int full_t(int p) const { return (p / Ctp) * Ct + p % Ctp; }
  int full_r(int p) const { return (p / Cap) * Ca + p % Cap; }
  bool virt_t(int a) const { return a % Ct >= Ctp; }
  bool virt_r(int r) const { return r % Ca >= Cap; }
  int phys_t(int a) const { return (a / Ct) * Ctp + a % Ct; } // only for non-virtual a
  int phys_r(int r) const { return (r / Ca) * Cap + r % Ca; }
};

static Lay
gen_layout(vf::Rng& rng, bool thorough)
{
  const int maxN = thorough ? 72 : 40, maxR = thorough ? 12 : 7;
  for (int tries = 0; tries < 1000; ++tries)
    {
      Lay L;
      const double u = rng.u01();
      L.vk = u < 0.45 ? 0 : (u < 0.7 ? 1 : 2);
      L.vt = L.vk >= 1 ? 1 : 0;
      L.va = L.vk == 2 ? 1 : 0;
      static const std::vector<int> ctp = { 1, 2, 2, 2, 3, 4, 4, 6 };
      static const std::vector<int> cap = { 1, 1, 2, 2, 3 };
      L.Ctp = rng.pick(ctp);
      L.Cap = rng.pick(cap);
      L.Ct = L.Ctp + L.vt;
      L.Ca = L.Cap + L.va;
      L.bpbT = static_cast<int>(rng.range(1, 3));
      L.bpbA = static_cast<int>(rng.range(1, 2));
      const int bucketsT = static_cast<int>(rng.range(1, 8));
      const int bucketsA = static_cast<int>(rng.range(1, 3));
      L.nbT = L.bpbT * bucketsT;
      L.nbA = L.bpbA * bucketsA;
      if (L.nbT % 2)
        continue; // FanProjData asserts an even number of (block) detectors per ring
      L.N = L.nbT * L.Ct;
      L.R = L.nbA * L.Ca - L.va;
      L.Np = L.nbT * L.Ctp;
      L.Rp = L.nbA * L.Cap;
      if (L.N < 8 || L.N > maxN || L.R < 1 || L.R > maxR || L.Np < 4)
        continue;
      if (L.R == 1 && rng.coin(0.8))
        continue;
      return L;
    }
  return Lay();
}

static vf::Desc
lay_desc(const Lay& L)
{
  vf::Desc d;
  d.add("virtual_kind", L.vk).add("N", L.N).add("R", L.R).add("Np", L.Np).add("Rp", L.Rp).add("Ct", L.Ct).add("Ca", L.Ca);
  d.add("nbT", L.nbT).add("nbA", L.nbA).add("bpbT", L.bpbT).add("bpbA", L.bpbA);
  return d;
}

static shared_ptr<Scanner>
make_scanner(const Lay& L, float radius, float ring_spacing)
{
  const Scanner::Type type = L.vk == 0 ? Scanner::User_defined_scanner : (L.vk == 1 ? Scanner::Siemens_mMR : Scanner::E1080);
  return shared_ptr<Scanner>(new Scanner(type, std::string("verif_c20"), L.N, L.R, L.N - 1, L.N - 1, radius, 0.f, ring_spacing,
                                         static_cast<float>(3.14159265 * radius / L.N), 0.f, L.bpbA, L.bpbT, L.Ca, L.Ct, 1, 1, 1));
}

// ------------------------------------------------------------------------------------------------ data access
struct PD
{
  shared_ptr<const ProjDataInfoCylindricalNoArcCorr> pdi;
  int min_seg = 0, max_seg = 0, min_tang = 0, max_tang = 0, nviews = 0;
  std::vector<SegmentBySinogram<float>> segs;
  void load(const ProjData& p)
  {
    segs.clear();
    for (int s = min_seg; s <= max_seg; ++s)
      segs.push_back(p.get_segment_by_sinogram(s));
  }
  void store(ProjData& p) const
  {
    for (auto& s : segs)
      p.set_segment(s);
  }
  float& at(const Bin& b) { return segs[b.segment_num() - min_seg][b.axial_pos_num()][b.view_num()][b.tangential_pos_num()]; }
  bool in_range(const Bin& b) const
  {
    if (b.segment_num() < min_seg || b.segment_num() > max_seg)
      return false;
    if (b.axial_pos_num() < pdi->get_min_axial_pos_num(b.segment_num()) || b.axial_pos_num() > pdi->get_max_axial_pos_num(b.segment_num()))
      return false;
    if (b.view_num() < 0 || b.view_num() >= nviews)
      return false;
    return b.tangential_pos_num() >= min_tang && b.tangential_pos_num() <= max_tang;
  }
  template <class F>
  void for_each_bin(F f)
  {
    Bin b;
    for (b.segment_num() = min_seg; b.segment_num() <= max_seg; ++b.segment_num())
      for (b.axial_pos_num() = pdi->get_min_axial_pos_num(b.segment_num()); b.axial_pos_num() <= pdi->get_max_axial_pos_num(b.segment_num());
           ++b.axial_pos_num())
        for (b.view_num() = 0; b.view_num() < nviews; ++b.view_num())
          for (b.tangential_pos_num() = min_tang; b.tangential_pos_num() <= max_tang; ++b.tangential_pos_num())
            f(b);
  }
};

static std::string
bins(const Bin& b)
{
  return vf::fmt("bin(seg%d,ax%d,view%d,tang%d)", b.segment_num(), b.axial_pos_num(), b.view_num(), b.tangential_pos_num());
}

// all (ordered) entries of a FanProjData: ra, a, rb in [min_rb,max_rb], b in the fan of a (reduced to 0..Np-1)
template <class F>
static void
for_each_entry(const FanProjData& fan, F f)
{
  const int Np = fan.get_num_detectors_per_ring();
  for (int ra = fan.get_min_ra(); ra <= fan.get_max_ra(); ++ra)
    for (int a = fan.get_min_a(); a <= fan.get_max_a(); ++a)
      for (int rb = fan.get_min_rb(ra); rb <= fan.get_max_rb(ra); ++rb)
        for (int bb = fan.get_min_b(a); bb <= fan.get_max_b(a); ++bb)
          f(ra, a, rb, bb % Np);
}

// ------------------------------------------------------------------------------------------------ union-find for symmetry orbits
struct UF
{
  std::vector<int> p;
  explicit UF(size_t n)
      : p(n)
  {
    std::iota(p.begin(), p.end(), 0);
  }
  int find(int x)
  {
    while (p[x] != x)
      {
        p[x] = p[p[x]];
        x = p[x];
      }
    return x;
  }
  void unite(int a, int b)
  {
    a = find(a);
    b = find(b);
    if (a != b)
      p[std::max(a, b)] = std::min(a, b);
  }
};

// orbits of unordered detector pairs {(ra,a),(rb,b)} under the symmetries used by the geometric model:
// rotation by one basic unit (ut crystals), axial translation by one basic unit (ua rings, where both rings stay inside),
// transaxial mirror a -> Np-1-a, axial mirror r -> Rp-1-r.
struct GeoOrbits
{
  int Rp, Np, K;
  UF uf;
  std::vector<float> fac;
  GeoOrbits(int Rp_, int Np_, int ua, int ut)
      : Rp(Rp_),
        Np(Np_),
        K(Rp_ * Np_),
        uf(static_cast<size_t>(Rp_ * Np_) * (Rp_ * Np_)),
        fac(static_cast<size_t>(Rp_ * Np_) * (Rp_ * Np_), 0.f)
  {
    auto det = [&](int r, int a) { return r * Np + a; };
    for (int u = 0; u < K; ++u)
      for (int v = u; v < K; ++v)
        {
          const int r1 = u / Np, a1 = u % Np, r2 = v / Np, a2 = v % Np;
          const int me = id(u, v);
          uf.unite(me, id(det(r1, (a1 + ut) % Np), det(r2, (a2 + ut) % Np)));
          if (r1 + ua < Rp && r2 + ua < Rp)
            uf.unite(me, id(det(r1 + ua, a1), det(r2 + ua, a2)));
          uf.unite(me, id(det(r1, Np - 1 - a1), det(r2, Np - 1 - a2)));
          uf.unite(me, id(det(Rp - 1 - r1, a1), det(Rp - 1 - r2, a2)));
        }
  }
  int id(int u, int v) const { return u <= v ? u * K + v : v * K + u; }
  int orbit(int ra, int a, int rb, int b) { return uf.find(id(ra * Np + a, rb * Np + b)); }
  template <class G>
  float factor(int ra, int a, int rb, int b, G gen)
  {
    const int o = orbit(ra, a, rb, b);
    if (fac[o] == 0.f)
      fac[o] = gen();
    return fac[o];
  }
};

static float
rand_factor(vf::Rng& rng, bool dyadic)
{
  if (dyadic)
    {
      static const std::vector<float> v = { 0.5f, 1.f, 2.f };
      return rng.pick(v);
    }
  return static_cast<float>(rng.uniform(0.5, 2.0));
}

// ------------------------------------------------------------------------------------------------ 3D parameter sets
struct Params
{
  Array<2, float> eff;
  bool have_geo = false, have_block = false;
  GeoData3D geo;
  BlockData3D block;
  int ua = 1, ut = 2;                // geometric basic unit (physical crystals)
  std::map<std::pair<int, int>, float> blockfac; // unordered block pair -> factor
  std::unique_ptr<GeoOrbits> orbits;
};

struct Cfg
{
  Lay L;
  int D = 0, T = 0, h = 0; // max ring difference, tangential positions, half fan size (all detectors)
  int Dp = 0, hp = 0;      // compressed (STIR's documented formula; used to restrict the generator only)
  bool sym_per_block = false;
  bool geo_ok = false, block_ok = false;
};

static void
fill_params(Params& P, const Cfg& c, const FanProjData& shape, vf::Rng& rng, bool dyadic)
{
  const Lay& L = c.L;
  P.eff = Array<2, float>(IndexRange2D(L.Rp, L.Np));
  for (int r = 0; r < L.Rp; ++r)
    for (int a = 0; a < L.Np; ++a)
      P.eff[r][a] = rand_factor(rng, dyadic);
  P.have_geo = c.geo_ok;
  P.have_block = c.block_ok;
  if (c.geo_ok)
    {
      P.geo = GeoData3D(P.ua, P.ut / 2, L.Rp, L.Np);
      P.orbits.reset(new GeoOrbits(L.Rp, L.Np, P.ua, P.ut));
      for (int ra = 0; ra < P.ua; ++ra)
        for (int a = 0; a < P.ut / 2; ++a)
          for (int rb = ra; rb < L.Rp; ++rb)
            for (int b = 0; b < L.Np; ++b)
              P.geo(ra, a, rb, b) = P.orbits->factor(ra, a, rb, b, [&] { return rand_factor(rng, dyadic); });
    }
  if (c.block_ok)
    {
      P.block = BlockData3D(L.nbA, L.nbT, L.nbA - 1, L.nbT - 1);
      for_each_entry(P.block, [&](int ra, int a, int rb, int b) {
        const int u = ra * L.nbT + a, v = rb * L.nbT + b;
        const auto key = std::make_pair(std::min(u, v), std::max(u, v));
        auto it = P.blockfac.find(key);
        if (it == P.blockfac.end())
          it = P.blockfac.emplace(key, rand_factor(rng, dyadic)).first;
        P.block(ra, a, rb, b) = it->second;
      });
    }
  (void)shape;
}

static double
block_factor(const Params& P, const Lay& L, int ra, int a, int rb, int b)
{
  const int u = (ra / L.Cap) * L.nbT + a / L.Ctp, v = (rb / L.Cap) * L.nbT + b / L.Ctp;
  auto it = P.blockfac.find(std::make_pair(std::min(u, v), std::max(u, v)));
  return it == P.blockfac.end() ? std::numeric_limits<double>::quiet_NaN() : it->second;
}

// compare fan `got` against orig*factor for every entry; returns false after reporting
template <class FacF>
static bool
check_applied(Ctx& ctx, const std::string& kind, const FanProjData& got, const FanProjData& orig, FacF facf, double rel_tol, long& n)
{
  bool ok = true;
  for_each_entry(orig, [&](int ra, int a, int rb, int b) {
    if (!ok)
      return;
    const double f = facf(ra, a, rb, b);
    const double ref = static_cast<double>(orig(ra, a, rb, b)) * f;
    const double g = got(ra, a, rb, b);
    ++n;
    if (!(std::fabs(g - ref) <= rel_tol * std::fabs(ref)))
      {
        ctx.violation("apply:" + kind, vf::fmt("entry (ra=%d,a=%d,rb=%d,b=%d): data %.9g, factor %.9g, expected %.9g, got %.9g", ra, a, rb, b,
                                               static_cast<double>(orig(ra, a, rb, b)), f, ref, g));
        ok = false;
      }
  });
  return ok;
}

// ------------------------------------------------------------------------------------------------ KL reference (each LOR once)
struct KLref
{
  double kl_once = 0, kl_inplane = 0, abs_terms = 0;
};
static double
kl_term(double n, double mu)
{
  if (n <= 0)
    return mu;
  return n * (std::log(n) - std::log(mu)) + mu - n;
}
static KLref
kl_reference(const FanProjData& data, const FanProjData& model, const Array<2, float>& eff)
{
  KLref k;
  const int Np = data.get_num_detectors_per_ring();
  for (int ra = data.get_min_ra(); ra <= data.get_max_ra(); ++ra)
    for (int a = data.get_min_a(); a <= data.get_max_a(); ++a)
      for (int rb = ra; rb <= data.get_max_rb(ra); ++rb)
        for (int bb = data.get_min_b(a); bb <= data.get_max_b(a); ++bb)
          {
            const int b = bb % Np;
            if (ra == rb && !(a < b))
              continue;
            const double mu = static_cast<double>(eff[ra][a]) * static_cast<double>(eff[rb][b]) * static_cast<double>(model(ra, a, rb, b));
            const double n = data(ra, a, rb, b);
            const double t = kl_term(n, mu);
            k.kl_once += t;
            k.abs_terms += std::fabs(n) + std::fabs(mu) + (n > 0 && mu > 0 ? std::fabs(n * (std::log(n) - std::log(mu))) : 0.);
            if (ra == rb)
              k.kl_inplane += t;
          }
  return k;
}

// ------------------------------------------------------------------------------------------------ info capture
struct CaptureWriter : public aTextWriter
{
  mutable std::vector<std::string> lines;
  void write(const char* t) const override { lines.emplace_back(t); }
};
struct NullW : public aTextWriter
{
  void write(const char*) const override {}
};

// ================================================================================================ 3D checks
static bool
checks_3d(Ctx& ctx, const Cfg& c, const shared_ptr<const ProjDataInfoCylindricalNoArcCorr>& pdi, const shared_ptr<ExamInfo>& exam)
{
  const Lay& L = c.L;
  vf::Rng& rng = ctx.rng;
  PD x;
  x.pdi = pdi;
  x.min_seg = pdi->get_min_segment_num();
  x.max_seg = pdi->get_max_segment_num();
  x.min_tang = pdi->get_min_tangential_pos_num();
  x.max_tang = pdi->get_max_tangential_pos_num();
  x.nviews = pdi->get_num_views();
  ProjDataInMemory xp(exam, pdi);
  x.load(xp);
  {
    float v = 1.f;
    x.for_each_bin([&](const Bin& b) {
      x.at(b) = v;
      v += 1.f;
    });
    x.store(xp);
  }

  // ---------------------------------------------------------------- (1) make_fan_data_remove_gaps
  ctx.heartbeat("make_fan_data_remove_gaps");
  FanProjData fan;
  make_fan_data_remove_gaps(fan, xp);
  if (fan.get_num_rings() != L.Rp || fan.get_num_detectors_per_ring() != L.Np)
    {
      ctx.violation("fan:dimensions", vf::fmt("fan data has %d rings x %d detectors, expected the physical %d x %d", fan.get_num_rings(),
                                              fan.get_num_detectors_per_ring(), L.Rp, L.Np));
      return false;
    }
  // (B) every bin inside the fan with two physical detectors must be present
  {
    bool ok = true;
    long outside = 0;
    x.for_each_bin([&](const Bin& b) {
      if (!ok)
        return;
      if (std::abs(b.tangential_pos_num()) > c.h)
        {
          ++outside;
          return;
        }
      int A, RA, B, RB;
      pdi->get_det_pair_for_bin(A, RA, B, RB, b);
      if (L.virt_t(A) || L.virt_t(B) || L.virt_r(RA) || L.virt_r(RB))
        return;
      int ra = L.phys_r(RA), a = L.phys_t(A), rb = L.phys_r(RB), bb = L.phys_t(B);
      if (ra > rb)
        {
          std::swap(ra, rb);
          std::swap(a, bb);
        }
      for (int order = 0; order < (ra == rb ? 2 : 1); ++order)
        {
          if (order == 1)
            std::swap(a, bb);
          if (!fan.is_in_data(ra, a, rb, bb))
            {
              ctx.violation("fan:pair_not_representable",
                            vf::fmt("%s -> physical pair (ra=%d,a=%d,rb=%d,b=%d) is outside the FanProjData built by make_fan_data_remove_gaps "
                                    "(max_delta %d, fan b range of a: %d..%d)",
                                    bins(b).c_str(), ra, a, rb, bb, fan.get_max_delta(), fan.get_min_b(a), fan.get_max_b(a)));
              ok = false;
              return;
            }
          const float got = fan(ra, a, rb, bb);
          ctx.count("fan_entries_compared");
          if (got != x.at(b))
            {
              ctx.violation("fan:value_of_bin", vf::fmt("%s value %.9g but fan(ra=%d,a=%d,rb=%d,b=%d) = %.9g", bins(b).c_str(),
                                                        static_cast<double>(x.at(b)), ra, a, rb, bb, static_cast<double>(got)));
              ok = false;
              return;
            }
        }
    });
    ctx.count("bins_outside_symmetric_fan", outside);
    if (!ok)
      return false;
  }
  // (A) every entry equals the bin of its detector pair (forward map), entries without a bin are 0
  {
    bool ok = true;
    for_each_entry(fan, [&](int ra, int a, int rb, int b) {
      if (!ok)
        return;
      Bin bin;
      const int A = L.full_t(a), B = L.full_t(b), RA = L.full_r(ra), RB = L.full_r(rb);
      float expected = 0.f;
      bool present = false;
      const DetectionPositionPair<> dpp(DetectionPosition<>(A, RA, 0), DetectionPosition<>(B, RB, 0));
      if (pdi->get_bin_for_det_pos_pair(bin, dpp) == Succeeded::yes && x.in_range(bin) && std::abs(bin.tangential_pos_num()) <= c.h)
        {
          expected = x.at(bin);
          present = true;
        }
      const float got = fan(ra, a, rb, b);
      ctx.count(present ? "fan_entries_compared" : "fan_entries_without_bin");
      if (got != expected)
        {
          ctx.violation(present ? "fan:entry_vs_get_bin_for_det_pair" : "fan:entry_without_bin_not_zero",
                        vf::fmt("fan(ra=%d,a=%d,rb=%d,b=%d) = %.9g; detector pair (det %d,ring %d)-(det %d,ring %d) -> %s expected %.9g", ra, a, rb,
                                b, static_cast<double>(got), A, RA, B, RB, present ? bins(bin).c_str() : "no bin", static_cast<double>(expected)));
          ok = false;
        }
    });
    if (!ok)
      return false;
  }
  // round trip
  {
    static const std::vector<float> gaps = { 0.f, 1.f, -3.5f, 17.25f };
    const float gap = rng.pick(gaps);
    ProjDataInMemory yp(exam, pdi);
    yp.fill(-7.f);
    ctx.heartbeat("set_fan_data_add_gaps");
    set_fan_data_add_gaps(yp, fan, gap);
    PD y = x;
    y.load(yp);
    bool ok = true;
    x.for_each_bin([&](const Bin& b) {
      if (!ok || std::abs(b.tangential_pos_num()) > c.h)
        return;
      int A, RA, B, RB;
      pdi->get_det_pair_for_bin(A, RA, B, RB, b);
      const bool gapbin = L.virt_t(A) || L.virt_t(B) || L.virt_r(RA) || L.virt_r(RB);
      const float expected = gapbin ? gap : x.at(b);
      ctx.count(gapbin ? "gap_entries_checked" : "roundtrip_bins_compared");
      if (y.at(b) != expected)
        {
          ctx.violation(gapbin ? "roundtrip:gap_value" : "roundtrip:value",
                        vf::fmt("%s dets (%d,%d)-(%d,%d): after set_fan_data_add_gaps(gap=%g) value %.9g, expected %.9g", bins(b).c_str(), A, RA,
                                B, RB, static_cast<double>(gap), static_cast<double>(y.at(b)), static_cast<double>(expected)));
          ok = false;
        }
    });
    if (!ok)
      return false;
    ctx.count("roundtrips");
  }

  // ---------------------------------------------------------------- (2) apply_* on the unique-valued data
  Params P;
  P.ua = L.Cap * ((!c.sym_per_block && L.nbA / L.bpbA > 1) ? L.bpbA : 1);
  P.ut = L.Ctp * ((!c.sym_per_block && L.nbT / L.bpbT > 1) ? L.bpbT : 1);
  fill_params(P, c, fan, rng, false);
  {
    ctx.heartbeat("apply_efficiencies");
    FanProjData w = fan;
    apply_efficiencies(w, P.eff, true);
    long n = 0;
    if (!check_applied(
            ctx, "efficiencies", w, fan,
            [&](int ra, int a, int rb, int b) { return static_cast<double>(P.eff[ra][a]) * static_cast<double>(P.eff[rb][b]); }, 4 * vf::EPS32, n))
      return false;
    apply_efficiencies(w, P.eff, false);
    if (!check_applied(ctx, "efficiencies_undo", w, fan, [&](int, int, int, int) { return 1.0; }, 4 * vf::EPS32, n))
      return false;
    ctx.count("apply_checks_efficiencies");
    ctx.count("apply_entries_compared", n);
  }
  if (P.have_geo)
    {
      ctx.heartbeat("apply_geo_norm");
      FanProjData w = fan;
      apply_geo_norm(w, P.geo, true);
      long n = 0;
      if (!check_applied(
              ctx, "geo", w, fan, [&](int ra, int a, int rb, int b) { return static_cast<double>(P.orbits->fac[P.orbits->orbit(ra, a, rb, b)]); },
              4 * vf::EPS32, n))
        return false;
      apply_geo_norm(w, P.geo, false);
      if (!check_applied(ctx, "geo_undo", w, fan, [&](int, int, int, int) { return 1.0; }, 4 * vf::EPS32, n))
        return false;
      ctx.count("apply_checks_geo");
      ctx.count("apply_entries_compared", n);
    }
  else
    ctx.count("geo_skipped_odd_or_single_crystal_unit");
  if (P.have_block)
    {
      ctx.heartbeat("apply_block_norm");
      FanProjData w = fan;
      apply_block_norm(w, P.block, true);
      long n = 0;
      if (!check_applied(
              ctx, "block", w, fan, [&](int ra, int a, int rb, int b) { return block_factor(P, L, ra, a, rb, b); }, 4 * vf::EPS32, n))
        return false;
      apply_block_norm(w, P.block, false);
      if (!check_applied(ctx, "block_undo", w, fan, [&](int, int, int, int) { return 1.0; }, 4 * vf::EPS32, n))
        return false;
      ctx.count("apply_checks_block");
      ctx.count("apply_entries_compared", n);
    }
  else
    ctx.count("block_skipped_fan_reaches_own_block");

  // ---------------------------------------------------------------- (3) fixed points
  for (int pass = 0; pass < 2; ++pass)
    {
      const bool dyadic = pass == 0;
      Params Q;
      Q.ua = P.ua;
      Q.ut = P.ut;
      fill_params(Q, c, fan, rng, dyadic);
      // base model: positive (small integers in the dyadic pass)
      ProjDataInMemory mp(exam, pdi);
      PD m = x;
      m.load(mp);
      m.for_each_bin([&](const Bin& b) { m.at(b) = dyadic ? static_cast<float>(rng.range(1, 4)) : static_cast<float>(rng.uniform(1., 3.)); });
      m.store(mp);
      FanProjData base;
      make_fan_data_remove_gaps(base, mp);
      const long fan_terms = static_cast<long>(2 * fan.get_max_delta() + 1) * (fan.get_max_b(0) - fan.get_min_b(0) + 1);
      const long nblocks_geo = Q.have_geo ? static_cast<long>(L.Rp / Q.ua) * (L.Np / Q.ut) : 0;
      // exactness of the dyadic pass: entries are k*2^-4 with k <= 64*16, sums of n entries need n*1024 < 2^24
      const long block_terms = 2L * L.Cap * L.Ctp * L.Cap * L.Ctp;
      const bool exact = dyadic && fan_terms < 8000 && 4 * nblocks_geo < 8000 && block_terms < 8000;
      const std::string tag = dyadic ? "exact" : "generic";

      // --- efficiencies
      {
        ctx.heartbeat("fixed_point_efficiencies_" + tag);
        FanProjData model = base;
        if (Q.have_geo)
          apply_geo_norm(model, Q.geo, true);
        if (Q.have_block)
          apply_block_norm(model, Q.block, true);
        FanProjData data = model;
        apply_efficiencies(data, Q.eff, true);
        Array<2, float> fansums(IndexRange2D(L.Rp, L.Np));
        make_fan_sum_data(fansums, data);
        Array<2, float> e = Q.eff;
        iterate_efficiencies(e, fansums, model);
        // worst-case propagation bound for the generic pass: every update adds at most its own rounding (n+3) eps
        const double r_local = (fan_terms + 3) * vf::EPS32;
        const double tol = exact ? 0. : 2. * r_local * L.Rp * L.Np;
        for (int r = 0; r < L.Rp; ++r)
          for (int a = 0; a < L.Np; ++a)
            {
              const bool has_data = fansums[r][a] != 0;
              const double ref = has_data ? Q.eff[r][a] : 0.;
              if (!(std::fabs(e[r][a] - ref) <= tol * std::fabs(ref)))
                {
                  ctx.violation("fixed_point:efficiencies_" + tag,
                                vf::fmt("detector (ring %d, det %d): true efficiency %.9g, fan sum %.9g, after iterate_efficiencies %.9g (tolerance %.3g "
                                        "relative, %ld terms per fan)",
                                        r, a, static_cast<double>(Q.eff[r][a]), static_cast<double>(fansums[r][a]), static_cast<double>(e[r][a]), tol,
                                        fan_terms));
                  return false;
                }
            }
        ctx.count("fixed_point_checks_efficiencies_" + tag);
        ctx.count("fixed_point_checks");
      }
      // --- efficiencies, "version without model" (model == 1 on every detector pair of the fan): data generated exactly
      //     from that model (a) through the FanProjData route, (b) through make_fan_sum_data(sums, efficiencies, max_ring_diff, half_fan)
      {
        ctx.heartbeat("fixed_point_efficiencies_without_model_" + tag);
        const int Dm = fan.get_max_delta(), hm = (fan.get_max_b(0) - fan.get_min_b(0)) / 2;
        FanProjData unit = fan;
        unit.fill(1);
        apply_efficiencies(unit, Q.eff, true);
        const double r_local = (fan_terms + 3) * vf::EPS32;
        const double tol = exact ? 0. : 2. * r_local * L.Rp * L.Np;
        for (int route = 0; route < 2; ++route)
          {
            Array<2, float> fansums(IndexRange2D(L.Rp, L.Np));
            if (route == 0)
              make_fan_sum_data(fansums, unit);
            else
              make_fan_sum_data(fansums, Q.eff, Dm, hm);
            Array<2, float> e = Q.eff;
            iterate_efficiencies(e, fansums, Dm, hm);
            for (int r = 0; r < L.Rp; ++r)
              for (int a = 0; a < L.Np; ++a)
                if (!(std::fabs(e[r][a] - Q.eff[r][a]) <= tol * Q.eff[r][a]))
                  {
                    ctx.violation(std::string("fixed_point:efficiencies_without_model_") + (route == 0 ? "data_from_fan_" : "data_from_make_fan_sum_data_") + tag,
                                  vf::fmt("detector (ring %d, det %d): true efficiency %.9g, fan sum %.9g, after iterate_efficiencies(eff, sums, max_ring_diff=%d, "
                                          "half_fan_size=%d) %.9g (tolerance %.3g relative)",
                                          r, a, static_cast<double>(Q.eff[r][a]), static_cast<double>(fansums[r][a]), Dm, hm, static_cast<double>(e[r][a]), tol));
                    return false;
                  }
            ctx.count("fixed_point_checks_efficiencies_without_model_" + tag);
            ctx.count("fixed_point_checks");
          }
      }
      // --- geo
      if (Q.have_geo)
        {
          ctx.heartbeat("fixed_point_geo_" + tag);
          FanProjData model = base;
          apply_efficiencies(model, Q.eff, true);
          if (Q.have_block)
            apply_block_norm(model, Q.block, true);
          FanProjData data = model;
          apply_geo_norm(data, Q.geo, true);
          GeoData3D measured(Q.ua, Q.ut / 2, L.Rp, L.Np), norm(Q.ua, Q.ut / 2, L.Rp, L.Np);
          make_geo_data(measured, data);
          norm.fill(1);
          iterate_geo_norm(norm, measured, model);
          const double tol = exact ? 0. : 2. * (4 * nblocks_geo + 6) * vf::EPS32;
          // every geo element is either its class factor or 0 (no data)
          long supported = 0;
          for (int ra = 0; ra < Q.ua; ++ra)
            for (int a = 0; a < Q.ut / 2; ++a)
              for (int rb = ra; rb < L.Rp; ++rb)
                for (int b = 0; b < L.Np; ++b)
                  {
                    const double got = norm(ra, a, rb, b);
                    const double ref = Q.geo(ra, a, rb, b);
                    if (got == 0)
                      continue;
                    ++supported;
                    if (!(std::fabs(got - ref) <= tol * std::fabs(ref)))
                      {
                        ctx.violation("fixed_point:geo_" + tag,
                                      vf::fmt("geo element (ra=%d,a=%d,rb=%d,b=%d): true factor %.9g, after iterate_geo_norm %.9g (tolerance %.3g relative)",
                                              ra, a, rb, b, ref, got, tol));
                        return false;
                      }
                  }
          // every non-zero entry's class (documented rule: shift to the first unit, mirror if in the upper half) must be estimated
          bool ok = true;
          for_each_entry(model, [&](int ra, int a, int rb, int b) {
            if (!ok || ra > rb || model(ra, a, rb, b) == 0)
              return;
            const int cra = ra % Q.ua, crb = rb - (ra - cra);
            int ca = a % Q.ut, cb = ((b - (a - ca)) % L.Np + L.Np) % L.Np;
            if (ca >= Q.ut / 2)
              {
                ca = Q.ut - 1 - ca;
                cb = ((Q.ut - 1 - cb) % L.Np + L.Np) % L.Np;
              }
            const double got = norm(cra, ca, crb, cb);
            const double ref = Q.orbits->fac[Q.orbits->orbit(ra, a, rb, b)];
            if (!(std::fabs(got - ref) <= tol * std::fabs(ref)))
              {
                ctx.violation("fixed_point:geo_class_of_entry_" + tag,
                              vf::fmt("entry (ra=%d,a=%d,rb=%d,b=%d) model %.9g belongs to geo class (%d,%d,%d,%d) whose estimate is %.9g, true %.9g", ra, a, rb,
                                      b, static_cast<double>(model(ra, a, rb, b)), cra, ca, crb, cb, got, ref));
                ok = false;
              }
          });
          if (!ok)
            return false;
          ctx.count("geo_classes_estimated", supported);
          ctx.count("fixed_point_checks_geo_" + tag);
          ctx.count("fixed_point_checks");
        }
      // --- block
      if (Q.have_block)
        {
          ctx.heartbeat("fixed_point_block_" + tag);
          FanProjData model = base;
          apply_efficiencies(model, Q.eff, true);
          if (Q.have_geo)
            apply_geo_norm(model, Q.geo, true);
          FanProjData data = model;
          apply_block_norm(data, Q.block, true);
          BlockData3D measured(L.nbA, L.nbT, L.nbA - 1, L.nbT - 1), norm(L.nbA, L.nbT, L.nbA - 1, L.nbT - 1);
          make_block_data(measured, data);
          norm.fill(1);
          iterate_block_norm(norm, measured, model);
          const double tol = exact ? 0. : 2. * (block_terms + 6) * vf::EPS32;
          bool ok = true;
          for_each_entry(norm, [&](int ra, int a, int rb, int b) {
            if (!ok || ra > rb)
              return;
            const double got = norm(ra, a, rb, b);
            if (got == 0)
              return;
            const double ref = Q.block(ra, a, rb, b);
            if (!(std::fabs(got - ref) <= tol * std::fabs(ref)))
              {
                ctx.violation("fixed_point:block_" + tag,
                              vf::fmt("block element (ra=%d,a=%d,rb=%d,b=%d): true factor %.9g, after iterate_block_norm %.9g (tolerance %.3g relative)", ra,
                                      a, rb, b, ref, got, tol));
                ok = false;
              }
          });
          for_each_entry(model, [&](int ra, int a, int rb, int b) {
            if (!ok || ra > rb || model(ra, a, rb, b) == 0)
              return;
            const double got = norm(ra / L.Cap, a / L.Ctp, rb / L.Cap, b / L.Ctp);
            const double ref = block_factor(Q, L, ra, a, rb, b);
            if (!(std::fabs(got - ref) <= tol * std::fabs(ref)))
              {
                ctx.violation("fixed_point:block_class_of_entry_" + tag,
                              vf::fmt("entry (ra=%d,a=%d,rb=%d,b=%d) belongs to block pair (%d,%d,%d,%d) whose estimate is %.9g, true %.9g", ra, a, rb, b,
                                      ra / L.Cap, a / L.Ctp, rb / L.Cap, b / L.Ctp, got, ref));
                ok = false;
              }
          });
          if (!ok)
            return false;
          ctx.count("fixed_point_checks_block_" + tag);
          ctx.count("fixed_point_checks");
        }
      if (dyadic && !exact)
        ctx.count("exact_pass_degraded_to_band");
    }

  // ---------------------------------------------------------------- (4) KL descent of iterate_efficiencies on Poisson data
  {
    ctx.heartbeat("kl_descent");
    Params Q;
    Q.ua = P.ua;
    Q.ut = P.ut;
    fill_params(Q, c, fan, rng, false);
    ProjDataInMemory mp(exam, pdi);
    PD m = x;
    m.load(mp);
    m.for_each_bin([&](const Bin& b) { m.at(b) = static_cast<float>(rng.uniform(1., 3.)); });
    m.store(mp);
    FanProjData base;
    make_fan_data_remove_gaps(base, mp);
    const bool known_components = rng.coin(0.5); // model includes the true geo/block factors, or is mis-specified
    FanProjData truth = base;
    if (Q.have_geo)
      apply_geo_norm(truth, Q.geo, true);
    if (Q.have_block)
      apply_block_norm(truth, Q.block, true);
    FanProjData model = known_components ? truth : base;
    apply_efficiencies(truth, Q.eff, true);
    ProjDataInMemory tp(exam, pdi);
    set_fan_data_add_gaps(tp, truth, 0.f);
    PD t = x;
    t.load(tp);
    const double scale = rng.coin(0.3) ? rng.uniform(0.05, 0.5) : rng.uniform(1., 20.);
    double total = 0;
    t.for_each_bin([&](const Bin& b) {
      const long n = std::abs(b.tangential_pos_num()) <= c.h ? rng.poisson(scale * t.at(b)) : 0;
      t.at(b) = static_cast<float>(n);
      total += n;
    });
    t.store(tp);
    FanProjData data;
    make_fan_data_remove_gaps(data, tp);
    if (total > 0)
      {
        Array<2, float> fansums(IndexRange2D(L.Rp, L.Np));
        make_fan_sum_data(fansums, data);
        double fansum_total = 0;
        for (int r = 0; r < L.Rp; ++r)
          for (int a = 0; a < L.Np; ++a)
            fansum_total += fansums[r][a];
        Array<2, float> e(IndexRange2D(L.Rp, L.Np));
        const bool const_start = rng.coin(0.5);
        for (int r = 0; r < L.Rp; ++r)
          for (int a = 0; a < L.Np; ++a)
            e[r][a] = const_start ? static_cast<float>(std::sqrt(fansum_total / std::max(1e-30, static_cast<double>(model.sum()))))
                                  : static_cast<float>(rng.uniform(0.3, 3.));
        const long fan_terms = static_cast<long>(2 * fan.get_max_delta() + 1) * (fan.get_max_b(0) - fan.get_min_b(0) + 1);
        const double delta = (fan_terms + 3) * vf::EPS32;
        const float threshold = data.find_max() / 100000.F; // as in ML_estimate_component_based_normalisation; < 1 for counts < 1e5
        auto stir_kl = [&]() {
          FanProjData w = model;
          apply_efficiencies(w, e, true);
          return KL(data, w, threshold);
        };
        KLref prev = kl_reference(data, model, e);
        double prev_stir = stir_kl();
        const int sweeps = static_cast<int>(rng.range(2, 6));
        for (int it = 1; it <= sweeps; ++it)
          {
            iterate_efficiencies(e, fansums, model);
            const KLref cur = kl_reference(data, model, e);
            const double cur_stir = stir_kl();
            // each coordinate update maximises the Poisson likelihood in that coordinate up to its float32 rounding delta:
            // loss <= N_a delta^2/2 per detector (N_a = fan sum)
            const double band = 4. * fansum_total * delta * delta + 1e-12 * (cur.abs_terms + prev.abs_terms);
            ctx.count("kl_steps_checked");
            if (!(cur.kl_once <= prev.kl_once + band) || !std::isfinite(cur.kl_once))
              {
                ctx.violation("kl:iterate_efficiencies_ascends",
                              vf::fmt("sweep %d: KL(data||model) over all LORs (float64) went from %.12g to %.12g (band %.3g); counts %.0f, %s start, %s", it,
                                      prev.kl_once, cur.kl_once, band, total, const_start ? "constant" : "random",
                                      known_components ? "model with true geo/block" : "mis-specified model"));
                return false;
              }
            // STIR's KL(FanProjData,...) sums oblique LORs once and in-plane LORs twice
            const double stir_expected = cur.kl_once + cur.kl_inplane;
            const double vband = 8 * vf::EPS32 * cur.abs_terms * 2;
            if (!(std::fabs(cur_stir - stir_expected) <= vband))
              ctx.count("stir_KL_differs_from_once_plus_inplane");
            else
              ctx.count("stir_KL_equals_once_plus_inplane");
            if (fan.get_max_delta() == 0)
              {
                // here STIR's value is exactly twice the KL distance: must descend as well
                ctx.count("kl_steps_checked_stir_value");
                if (!(cur_stir <= prev_stir + 2 * band + vband))
                  {
                    ctx.violation("kl:stir_KL_ascends_2D_data", vf::fmt("sweep %d: KL(FanProjData) went from %.12g to %.12g (band %.3g)", it, prev_stir,
                                                                         cur_stir, 2 * band + vband));
                    return false;
                  }
              }
            else if (cur_stir > prev_stir + 2 * band + vband)
              ctx.count("observed_stir_KL_increase_with_oblique_segments");
            prev = cur;
            prev_stir = cur_stir;
          }
      }
    else
      ctx.count("kl_skipped_no_counts");
  }
  return true;
}

// ================================================================================================ 2D checks (DetPairData)
static bool
checks_2d(Ctx& ctx, const Cfg& c, const shared_ptr<const ProjDataInfoCylindricalNoArcCorr>& pdi, const shared_ptr<ExamInfo>& exam)
{
  const Lay& L = c.L;
  vf::Rng& rng = ctx.rng;
  const int N = L.N;
  const int seg = (pdi->get_max_segment_num() > 0 && rng.coin(0.4)) ? static_cast<int>(rng.range(1, pdi->get_max_segment_num())) : 0;
  const int ax = static_cast<int>(rng.range(pdi->get_min_axial_pos_num(seg), pdi->get_max_axial_pos_num(seg)));
  ctx.desc.add("seg2d", seg).add("ax2d", ax);
  ProjDataInMemory xp(exam, pdi);
  {
    float v = 1.f;
    for (int s = pdi->get_min_segment_num(); s <= pdi->get_max_segment_num(); ++s)
      {
        SegmentBySinogram<float> sg = xp.get_empty_segment_by_sinogram(s);
        for (auto it = sg.begin_all(); it != sg.end_all(); ++it)
          {
            *it = v;
            v += 1.f;
          }
        xp.set_segment(sg);
      }
  }
  const Sinogram<float> pos = xp.get_sinogram(ax, seg), neg = xp.get_sinogram(ax, -seg);
  ctx.heartbeat("make_det_pair_data");
  DetPairData d;
  make_det_pair_data(d, xp, seg, ax);
  if (d.get_num_detectors() != N)
    {
      ctx.violation("det2d:dimensions", vf::fmt("DetPairData has %d detectors, scanner %d", d.get_num_detectors(), N));
      return false;
    }
  auto for_each_2d = [&](auto f) {
    for (int a = d.get_min_index(); a <= d.get_max_index(); ++a)
      for (int bb = d.get_min_index(a); bb <= d.get_max_index(a); ++bb)
        f(a, bb % N);
  };
  {
    bool ok = true;
    std::set<std::pair<int, int>> seen;
    for_each_2d([&](int a, int b) {
      if (!ok)
        return;
      int view, tang;
      const bool positive = pdi->get_view_tangential_pos_num_for_det_num_pair(view, tang, a, b);
      float expected = 0;
      bool present = false;
      if (tang >= pdi->get_min_tangential_pos_num() && tang <= pdi->get_max_tangential_pos_num())
        {
          expected = positive ? pos[view][tang] : neg[view][tang];
          present = true;
          seen.insert({ positive ? seg : -seg, view * 1000 + tang + 500 });
        }
      ctx.count(present ? "det2d_entries_compared" : "det2d_entries_without_bin");
      if (d(a, b) != expected)
        {
          ctx.violation("det2d:entry_vs_view_tang_map",
                        vf::fmt("det_pair_data(%d,%d) = %.9g, expected %.9g (view %d, tang %d, %s segment)", a, b, static_cast<double>(d(a, b)),
                                static_cast<double>(expected), view, tang, positive ? "positive" : "negative"));
          ok = false;
        }
    });
    if (!ok)
      return false;
    const size_t want = static_cast<size_t>(pdi->get_num_views()) * pdi->get_num_tangential_poss() * (seg == 0 ? 1 : 2);
    if (seen.size() != want)
      {
        ctx.violation("det2d:bins_not_all_represented", vf::fmt("%zu of %zu bins of the sinogram(s) appear in the DetPairData", seen.size(), want));
        return false;
      }
  }
  {
    ProjDataInMemory yp(exam, pdi);
    yp.fill(-7.f);
    ctx.heartbeat("set_det_pair_data");
    set_det_pair_data(yp, d, seg, ax);
    for (int sgn = 0; sgn < (seg == 0 ? 1 : 2); ++sgn)
      {
        const Sinogram<float> got = yp.get_sinogram(ax, sgn ? -seg : seg);
        const Sinogram<float>& ref = sgn ? neg : pos;
        for (int v = 0; v < pdi->get_num_views(); ++v)
          for (int t = pdi->get_min_tangential_pos_num(); t <= pdi->get_max_tangential_pos_num(); ++t)
            {
              ctx.count("roundtrip_bins_compared");
              if (got[v][t] != ref[v][t])
                {
                  ctx.violation("det2d:roundtrip", vf::fmt("segment %d ax %d view %d tang %d: %.9g after set_det_pair_data(make_det_pair_data), was %.9g",
                                                           sgn ? -seg : seg, ax, v, t, static_cast<double>(got[v][t]), static_cast<double>(ref[v][t])));
                  return false;
                }
            }
      }
    ctx.count("roundtrips");
    ctx.count("det2d_roundtrips");
  }
  // parameters: efficiencies, geo (rotation by one block + mirror), block pairs
  const int C = L.Ct, nb = L.nbT;
  const bool geo_ok = C % 2 == 0;
  for (int pass = 0; pass < 2; ++pass)
    {
      const bool dyadic = pass == 0;
      Array<1, float> eff(N);
      for (int a = 0; a < N; ++a)
        eff[a] = rand_factor(rng, dyadic);
      UF uf(static_cast<size_t>(N) * N);
      auto id = [&](int u, int v) { return u <= v ? u * N + v : v * N + u; };
      for (int u = 0; u < N; ++u)
        for (int v = u; v < N; ++v)
          {
            uf.unite(id(u, v), id((u + C) % N, (v + C) % N));
            uf.unite(id(u, v), id(N - 1 - u, N - 1 - v));
          }
      std::vector<float> ofac(static_cast<size_t>(N) * N, 0.f);
      auto gfac = [&](int a, int b) -> float& { return ofac[uf.find(id(a, b))]; };
      GeoData geo(IndexRange2D(std::max(C / 2, 1), N));
      if (geo_ok)
        for (int a = 0; a < C / 2; ++a)
          for (int b = 0; b < N; ++b)
            {
              if (gfac(a, b) == 0.f)
                gfac(a, b) = rand_factor(rng, dyadic);
              geo[a][b] = gfac(a, b);
            }
      BlockData block(IndexRange2D(nb, nb));
      for (int A = 0; A < nb; ++A)
        for (int B = A; B < nb; ++B)
          block[A][B] = block[B][A] = rand_factor(rng, dyadic);
      auto compare = [&](const std::string& kind, const DetPairData& got, const DetPairData& orig, auto facf, double tol) {
        bool ok = true;
        for_each_2d([&](int a, int b) {
          if (!ok)
            return;
          const double ref = static_cast<double>(orig(a, b)) * facf(a, b);
          ctx.count("apply_entries_compared");
          if (!(std::fabs(got(a, b) - ref) <= tol * std::fabs(ref)))
            {
              ctx.violation("det2d:apply_" + kind, vf::fmt("entry (%d,%d): data %.9g factor %.9g expected %.9g got %.9g", a, b,
                                                           static_cast<double>(orig(a, b)), facf(a, b), ref, static_cast<double>(got(a, b))));
              ok = false;
            }
        });
        return ok;
      };
      if (pass == 1)
        {
          ctx.heartbeat("apply_2d");
          DetPairData w = d;
          apply_efficiencies(w, eff, true);
          if (!compare("efficiencies", w, d, [&](int a, int b) { return static_cast<double>(eff[a]) * eff[b]; }, 4 * vf::EPS32))
            return false;
          apply_efficiencies(w, eff, false);
          if (!compare("efficiencies_undo", w, d, [&](int, int) { return 1.; }, 4 * vf::EPS32))
            return false;
          ctx.count("apply_checks_efficiencies_2d");
          if (geo_ok)
            {
              w = d;
              apply_geo_norm(w, geo, true);
              if (!compare("geo", w, d, [&](int a, int b) { return static_cast<double>(gfac(a, b)); }, 4 * vf::EPS32))
                return false;
              apply_geo_norm(w, geo, false);
              if (!compare("geo_undo", w, d, [&](int, int) { return 1.; }, 4 * vf::EPS32))
                return false;
              ctx.count("apply_checks_geo_2d");
            }
          w = d;
          apply_block_norm(w, block, true);
          if (!compare("block", w, d, [&](int a, int b) { return static_cast<double>(block[a / C][b / C]); }, 4 * vf::EPS32))
            return false;
          apply_block_norm(w, block, false);
          if (!compare("block_undo", w, d, [&](int, int) { return 1.; }, 4 * vf::EPS32))
            return false;
          ctx.count("apply_checks_block_2d");
        }
      // fixed points on symmetric (segment 0 like) model data
      DetPairData base = d;
      for_each_2d([&](int a, int b) {
        if (a < b || !base.is_in_data(b, a))
          base(a, b) = dyadic ? static_cast<float>(rng.range(1, 4)) : static_cast<float>(rng.uniform(1., 3.));
      });
      for_each_2d([&](int a, int b) {
        if (a > b && base.is_in_data(b, a))
          base(a, b) = base(b, a);
      });
      const long fan_terms = d.get_max_index(0) - d.get_min_index(0) + 1;
      const std::string tag = dyadic ? "exact" : "generic";
      {
        ctx.heartbeat("fixed_point_2d_" + tag);
        DetPairData model = base;
        if (geo_ok)
          apply_geo_norm(model, geo, true);
        apply_block_norm(model, block, true);
        DetPairData data = model;
        apply_efficiencies(data, eff, true);
        Array<1, float> fansums(N);
        make_fan_sum_data(fansums, data);
        Array<1, float> e = eff;
        iterate_efficiencies(e, fansums, model);
        const double tol = dyadic ? 0. : 2. * (fan_terms + 3) * vf::EPS32 * N;
        for (int a = 0; a < N; ++a)
          if (!(std::fabs(e[a] - eff[a]) <= tol * eff[a]))
            {
              ctx.violation("det2d:fixed_point_efficiencies_" + tag, vf::fmt("detector %d: true %.9g after iterate_efficiencies %.9g (tol %.3g)", a,
                                                                             static_cast<double>(eff[a]), static_cast<double>(e[a]), tol));
              return false;
            }
        ctx.count("fixed_point_checks_efficiencies_2d_" + tag);
        ctx.count("fixed_point_checks");
      }
      if (geo_ok)
        {
          DetPairData model = base;
          apply_efficiencies(model, eff, true);
          apply_block_norm(model, block, true);
          DetPairData data = model;
          apply_geo_norm(data, geo, true);
          GeoData measured(IndexRange2D(C / 2, N)), norm(IndexRange2D(C / 2, N));
          make_geo_data(measured, data);
          norm.fill(1);
          iterate_geo_norm(norm, measured, model);
          // make_geo_data divides by 2*num_blocks (not a power of two): two extra roundings even in the dyadic pass
          const double tol = (dyadic ? 4. : 2. * (2 * nb + 8)) * vf::EPS32;
          for (int a = 0; a < C / 2; ++a)
            for (int b = 0; b < N; ++b)
              {
                const double got = norm[a][b], ref = geo[a][b];
                if (got == 0)
                  continue;
                if (!(std::fabs(got - ref) <= tol * ref))
                  {
                    ctx.violation("det2d:fixed_point_geo_" + tag, vf::fmt("geo[%d][%d]: true %.9g after iterate_geo_norm %.9g (tol %.3g)", a, b, ref, got, tol));
                    return false;
                  }
              }
          bool ok = true;
          for_each_2d([&](int a, int b) {
            if (!ok || model(a, b) == 0)
              return;
            int ca = a % C, cb = ((b - (a - ca)) % N + N) % N;
            if (ca >= C / 2)
              {
                ca = C - 1 - ca;
                cb = ((C - 1 - cb) % N + N) % N;
              }
            const double got = norm[ca][cb], ref = gfac(a, b);
            if (!(std::fabs(got - ref) <= tol * ref))
              {
                ctx.violation("det2d:fixed_point_geo_class_of_entry_" + tag,
                              vf::fmt("entry (%d,%d) belongs to geo class [%d][%d] whose estimate is %.9g, true %.9g", a, b, ca, cb, got, ref));
                ok = false;
              }
          });
          if (!ok)
            return false;
          ctx.count("fixed_point_checks_geo_2d_" + tag);
          ctx.count("fixed_point_checks");
        }
      {
        DetPairData model = base;
        apply_efficiencies(model, eff, true);
        if (geo_ok)
          apply_geo_norm(model, geo, true);
        DetPairData data = model;
        apply_block_norm(data, block, true);
        BlockData measured(IndexRange2D(nb, nb)), norm(IndexRange2D(nb, nb));
        make_block_data(measured, data);
        norm.fill(1);
        iterate_block_norm(norm, measured, model);
        const double tol = (dyadic ? 4. : 2. * (2. * C * C + 8)) * vf::EPS32;
        bool ok = true;
        for_each_2d([&](int a, int b) {
          if (!ok || model(a, b) == 0)
            return;
          const double got = norm[a / C][b / C], ref = block[a / C][b / C];
          if (!(std::fabs(got - ref) <= tol * ref))
            {
              ctx.violation("det2d:fixed_point_block_" + tag,
                            vf::fmt("entry (%d,%d) block pair [%d][%d]: estimate %.9g, true %.9g (tol %.3g)", a, b, a / C, b / C, got, ref, tol));
              ok = false;
            }
        });
        if (!ok)
          return false;
        ctx.count("fixed_point_checks_block_2d_" + tag);
        ctx.count("fixed_point_checks");
      }
      // KL descent (2D): Poisson data around eff x model, symmetric
      if (pass == 1)
        {
          ctx.heartbeat("kl_descent_2d");
          DetPairData data = base;
          const double scale = rng.uniform(0.2, 10.);
          double total = 0;
          for_each_2d([&](int a, int b) {
            if (a < b || !data.is_in_data(b, a))
              {
                data(a, b) = static_cast<float>(rng.poisson(scale * base(a, b) * eff[a] * eff[b]));
                total += data(a, b);
              }
          });
          for_each_2d([&](int a, int b) {
            if (a > b && data.is_in_data(b, a))
              data(a, b) = data(b, a);
          });
          if (total > 0)
            {
              Array<1, float> fansums(N);
              make_fan_sum_data(fansums, data);
              double fst = 0;
              for (int a = 0; a < N; ++a)
                fst += fansums[a];
              Array<1, float> e(N);
              for (int a = 0; a < N; ++a)
                e[a] = static_cast<float>(rng.uniform(0.3, 3.));
              auto kl64 = [&](double& abs_terms) {
                double k = 0;
                abs_terms = 0;
                for_each_2d([&](int a, int b) {
                  if (!(a < b))
                    return;
                  const double mu = static_cast<double>(e[a]) * e[b] * base(a, b), n = data(a, b);
                  k += kl_term(n, mu);
                  abs_terms += n + mu + (n > 0 && mu > 0 ? std::fabs(n * (std::log(n) - std::log(mu))) : 0.);
                });
                return k;
              };
              const float threshold = data.find_max() / 100000.F;
              auto stir_kl = [&]() {
                DetPairData w = base;
                apply_efficiencies(w, e, true);
                return KL(data, w, threshold);
              };
              double abs_prev, abs_cur;
              double prev = kl64(abs_prev), prev_stir = stir_kl();
              const double delta = (fan_terms + 3) * vf::EPS32;
              for (int it = 1; it <= 4; ++it)
                {
                  iterate_efficiencies(e, fansums, base);
                  const double cur = kl64(abs_cur), cur_stir = stir_kl();
                  const double band = 4. * fst * delta * delta + 1e-12 * (abs_cur + abs_prev);
                  const double vband = 16 * vf::EPS32 * abs_cur;
                  ctx.count("kl_steps_checked");
                  ctx.count("kl_steps_checked_stir_value");
                  if (!(cur <= prev + band) || !(cur_stir <= prev_stir + 2 * band + vband))
                    {
                      ctx.violation("det2d:kl_iterate_efficiencies_ascends",
                                    vf::fmt("sweep %d: KL over LORs %.12g -> %.12g (band %.3g); STIR KL(DetPairData) %.12g -> %.12g", it, prev, cur, band,
                                            prev_stir, cur_stir));
                      return false;
                    }
                  prev = cur;
                  prev_stir = cur_stir;
                  abs_prev = abs_cur;
                }
            }
        }
    }
  return true;
}

// ================================================================================================ full driver
static bool
run_driver(Ctx& ctx, const Cfg& c, const shared_ptr<const ProjDataInfoCylindricalNoArcCorr>& pdi, const shared_ptr<ExamInfo>& exam)
{
  const Lay& L = c.L;
  vf::Rng& rng = ctx.rng;
  ProjDataInMemory model(exam, pdi), measured(exam, pdi);
  Array<2, float> eff(IndexRange2D(L.R, L.N));
  for (int r = 0; r < L.R; ++r)
    for (int a = 0; a < L.N; ++a)
      eff[r][a] = static_cast<float>(rng.uniform(0.6, 1.6));
  const double scale = rng.uniform(2., 30.);
  double total_counts = 0;
  for (int s = pdi->get_min_segment_num(); s <= pdi->get_max_segment_num(); ++s)
    {
      SegmentBySinogram<float> ms = model.get_empty_segment_by_sinogram(s), ds = measured.get_empty_segment_by_sinogram(s);
      Bin b;
      b.segment_num() = s;
      for (b.axial_pos_num() = ms.get_min_axial_pos_num(); b.axial_pos_num() <= ms.get_max_axial_pos_num(); ++b.axial_pos_num())
        for (b.view_num() = 0; b.view_num() < pdi->get_num_views(); ++b.view_num())
          for (b.tangential_pos_num() = ms.get_min_tangential_pos_num(); b.tangential_pos_num() <= ms.get_max_tangential_pos_num();
               ++b.tangential_pos_num())
            {
              const float mval = static_cast<float>(rng.uniform(1., 3.));
              int A, RA, B, RB;
              pdi->get_det_pair_for_bin(A, RA, B, RB, b);
              ms[b.axial_pos_num()][b.view_num()][b.tangential_pos_num()] = mval;
              const long cnt = rng.poisson(scale * mval * eff[RA][A] * eff[RB][B]);
              total_counts += cnt;
              ds[b.axial_pos_num()][b.view_num()][b.tangential_pos_num()] = static_cast<float>(cnt);
            }
      model.set_segment(ms);
      measured.set_segment(ds);
    }
  const int n_eff = static_cast<int>(rng.range(2, 4)), n_it = static_cast<int>(rng.range(1, 2));
  const bool do_geo = rng.coin(0.5), do_block = rng.coin(0.5), do_KL = rng.coin(0.7);
  ctx.desc.add("driver", vf::Desc().add("n_eff", n_eff).add("n_it", n_it).add("do_geo", do_geo).add("do_block", do_block).add("do_KL", do_KL));
  const std::string prefix = (ctx.tmpdir.empty() ? std::string("/tmp") : ctx.tmpdir) + "/c20_" + std::to_string(ctx.idx) + "_" + std::to_string(ctx.seed);
  static CaptureWriter cap;
  static NullW nullw;
  cap.lines.clear();
  TextWriterHandle h;
  h.set_information_channel(&cap);
  Verbosity::set(1);
  ctx.heartbeat("ML_estimate_component_based_normalisation");
  std::string thrown;
  try
    {
      ML_estimate_component_based_normalisation(prefix, measured, model, n_eff, n_it, do_geo, do_block, c.sym_per_block, do_KL, false);
    }
  catch (const std::exception& e)
    {
      thrown = e.what();
    }
  h.set_information_channel(&nullw);
  Verbosity::set(0);
  ctx.count("driver_runs");
  // KL reports
  std::vector<double> kls;
  for (auto& l : cap.lines)
    {
      // info() writes "\nINFO: KL <value>\n"
      const auto p = l.find("INFO: KL ");
      if (p != std::string::npos && l.compare(p + 6, 6, "KL on ") != 0)
        kls.push_back(std::atof(l.c_str() + p + 9));
    }
  bool ok = true;
  if (do_KL)
    {
      if (static_cast<int>(kls.size()) < n_eff)
        {
          ctx.violation("driver:kl_reports_missing", vf::fmt("%zu KL reports captured, expected at least %d (exception: '%s')", kls.size(), n_eff, thrown.c_str()));
          ok = false;
        }
      else
        {
          // reports per outer iteration: n_eff efficiency sub-iterations, then one after the geo and one after the block step
          ctx.count("driver_kl_reports", static_cast<long>(kls.size()));
          const int per_outer = n_eff + 2;
          for (int it = 0; it < n_it && ok && static_cast<int>(kls.size()) >= it * per_outer + n_eff; ++it)
            for (int j = 1; j < n_eff && ok; ++j)
              {
                const double before = kls[it * per_outer + j - 1], after = kls[it * per_outer + j];
                // info() prints 6 significant digits
                // plus the float32 rounding of the model entries the KL is computed from: |dKL| <= sum (n + mu) eps
                const double band = 4e-6 * std::fabs(before) + 64 * vf::EPS32 * total_counts + 1e-9;
                if (!(after <= before + band))
                  {
                    if (c.Dp == 0)
                      {
                        ctx.violation("driver:kl_report_ascends", vf::fmt("outer iteration %d, efficiency sub-iteration %d -> %d: reported KL %.9g -> %.9g",
                                                                          it + 1, j, j + 1, before, after));
                        ok = false;
                      }
                    else
                      ctx.count("observed_driver_KL_increase_with_oblique_segments");
                  }
                else
                  ctx.count(c.Dp == 0 ? "kl_steps_checked_driver" : "kl_steps_observed_driver_oblique");
              }
        }
    }
  // outputs of the first sub-iteration exist and parse
  if (ok)
    {
      std::ifstream in(prefix + "_eff_1_1.out");
      Array<2, float> e;
      in >> e;
      if (!in || e.get_length() != L.Rp || e[e.get_min_index()].get_length() != L.Np)
        {
          ctx.violation("driver:efficiency_output", vf::fmt("%s_eff_1_1.out missing or not %d x %d (exception: '%s')", prefix.c_str(), L.Rp, L.Np, thrown.c_str()));
          ok = false;
        }
    }
  // --print-KL is a reporting option: the estimates must not depend on it (otherwise the reported KL values say nothing about
  // the run a user makes without it, and the block / geo steps of a diagnosed run are not the ML steps of the statement).
  // Second run of the same estimation with the reports off; every component file must hold the same numbers.
  if (ok && do_KL && thrown.empty() && ((do_geo && do_block) || rng.coin(0.25)))
    {
      const std::string prefix2 = prefix + "_noKL";
      std::string thrown2;
      try
        {
          ML_estimate_component_based_normalisation(prefix2, measured, model, n_eff, n_it, do_geo, do_block, c.sym_per_block, false, false);
        }
      catch (const std::exception& e)
        {
          thrown2 = e.what();
        }
      auto numbers = [](const std::string& f, std::vector<double>& out) -> bool {
        std::ifstream in(f);
        if (!in)
          return false;
        std::string tok;
        while (in >> tok)
          {
            // strip the list punctuation of STIR's array text format
            std::string t;
            for (char ch : tok)
              if (ch != '{' && ch != '}' && ch != ',')
                t += ch;
            if (t.empty())
              continue;
            char* e = nullptr;
            const double v = std::strtod(t.c_str(), &e);
            if (e != t.c_str())
              out.push_back(v);
          }
        return true;
      };
      std::vector<std::string> files;
      for (int it = 1; it <= n_it; ++it)
        {
          for (int j = 1; j <= n_eff; ++j)
            files.push_back("_eff_" + std::to_string(it) + "_" + std::to_string(j) + ".out");
          files.push_back("_geo_" + std::to_string(it) + ".out");
          files.push_back("_block_" + std::to_string(it) + ".out");
        }
      for (const std::string& f : files)
        {
          std::vector<double> a, b;
          const bool ha = numbers(prefix + f, a), hb = numbers(prefix2 + f, b);
          if (!ha && !hb)
            continue;
          bool same = ha == hb && a.size() == b.size();
          size_t at = 0;
          for (size_t i = 0; same && i < a.size(); ++i)
            if (!(std::fabs(a[i] - b[i]) <= 1e-4 * (std::fabs(a[i]) + std::fabs(b[i])) + 1e-12))
              {
                same = false;
                at = i;
              }
          if (!same)
            {
              ctx.violation("driver:estimates-depend-on-the-print-KL-option",
                            vf::fmt("%s: with KL reports %s, without %s (do_geo %d, do_block %d, %d eff iterations, %d outer; exception without reports: '%s')",
                                    f.c_str(), ha && at < a.size() ? vf::fmt("entry %zu = %.9g", at, a[at]).c_str() : "missing",
                                    hb && at < b.size() ? vf::fmt("%.9g", b[at]).c_str() : "missing", do_geo, do_block, n_eff, n_it, thrown2.c_str()));
              ok = false;
              break;
            }
          ctx.count("driver_component_files_compared_with_and_without_KL_reports");
        }
      ctx.count("driver_runs_repeated_without_KL_reports");
      if (do_geo && do_block)
        ctx.count("driver_runs_repeated_without_KL_reports_geo_and_block");
    }
  // an outer iteration is complete when its last efficiency file and its geo and block files were written
  for (int it = 1; it <= n_it; ++it)
    {
      bool all = true;
      for (const std::string& f : { prefix + "_eff_" + std::to_string(it) + "_" + std::to_string(n_eff) + ".out", prefix + "_geo_" + std::to_string(it) + ".out",
                                    prefix + "_block_" + std::to_string(it) + ".out" })
        all = all && std::ifstream(f).good();
      if (all)
        ctx.count("driver_outer_iterations_completed");
    }
  for (int it = 1; it <= n_it; ++it)
    {
      for (int j = 1; j <= n_eff; ++j)
        std::remove((prefix + "_eff_" + std::to_string(it) + "_" + std::to_string(j) + ".out").c_str());
      std::remove((prefix + "_geo_" + std::to_string(it) + ".out").c_str());
      std::remove((prefix + "_block_" + std::to_string(it) + ".out").c_str());
    }
  if (!thrown.empty() && ok)
    {
      if (thrown.find("bad_format_string") != std::string::npos && do_KL)
        ctx.violation("driver:do_KL_throws_bad_format_string",
                      "ML_estimate_component_based_normalisation(..., do_KL=true) throws '" + thrown
                          + "' at the end of the first outer iteration (format string \"KL on fans: %1%, %2\")");
      else
        ctx.violation("driver:exception:" + vf::short_what(thrown), thrown);
      ok = false;
    }
  return ok;
}

// ================================================================================================ case
static void
run_case(Ctx& ctx)
{
  vf::Rng& rng = ctx.rng;
  Cfg c;
  c.L = gen_layout(rng, ctx.thorough());
  const Lay& L = c.L;
  c.D = rng.coin(0.4) ? L.R - 1 : static_cast<int>(rng.range(0, L.R - 1));
  // number of tangential positions: up to N-1 (fan over all other detectors)
  {
    const double u = rng.u01();
    if (u < 0.25)
      c.T = L.N - 1;
    else if (u < 0.5)
      c.T = L.N / 2 + static_cast<int>(rng.range(0, 1));
    else
      c.T = static_cast<int>(rng.range(1, L.N - 1));
  }
  c.sym_per_block = rng.coin(0.5);
  // compressed fan size / ring difference exactly as make_fan_data_remove_gaps documents them; used to keep the generator
  // inside FanProjData's asserted preconditions (fan_size < detectors per ring) -- shrinking T never makes a check unsound
  for (;; --c.T)
    {
      const int min_t = -(c.T / 2), max_t = min_t + c.T - 1;
      c.h = std::min(max_t, -min_t);
      const int fan_size = 2 * c.h + 1;
      const int new_fan = fan_size - (fan_size / L.Ct) * L.vt;
      c.hp = new_fan / 2;
      if (2 * c.hp + 1 < L.Np || c.T <= 1)
        break;
    }
  c.Dp = c.D - (c.D / L.Ca) * L.va;
  const int ua = L.Cap * ((!c.sym_per_block && L.nbA / L.bpbA > 1) ? L.bpbA : 1);
  const int ut = L.Ctp * ((!c.sym_per_block && L.nbT / L.bpbT > 1) ? L.bpbT : 1);
  (void)ua;
  c.geo_ok = ut % 2 == 0;                      // find_ML_normfactors: assert(num_crystals_per_block % 2 == 0)
  c.block_ok = c.hp <= L.Np / 2 - L.Ctp;       // BlockData3D(nbA, nbT, nbA-1, nbT-1) has no element for a pair inside one block
  ctx.desc.add("layout", lay_desc(L)).add("max_delta", c.D).add("num_tang", c.T).add("half_fan", c.h).add("sym_per_block", c.sym_per_block);
  ctx.desc.add("geo", c.geo_ok).add("block", c.block_ok);
  const float radius = static_cast<float>(rng.uniform(80., 400.));
  const float ring_spacing = static_cast<float>(rng.uniform(2., 8.));
  ctx.desc.add("radius", radius).add("ring_spacing", ring_spacing);
  ctx.heartbeat("construct");
  shared_ptr<Scanner> sc;
  shared_ptr<ProjDataInfo> pdi_any;
  try
    {
      sc = make_scanner(L, radius, ring_spacing);
      pdi_any = ProjDataInfo::construct_proj_data_info(sc, 1, c.D, L.N / 2, c.T, false);
    }
  catch (const std::exception& e)
    {
      throw vf::Skip(std::string("scanner/proj_data_info rejected: ") + e.what());
    }
  auto pdi = dynamic_pointer_cast<const ProjDataInfoCylindricalNoArcCorr>(pdi_any);
  if (!pdi)
    throw vf::Skip("unexpected proj_data_info class");
  if (sc->get_num_virtual_transaxial_crystals_per_block() != L.vt || sc->get_num_virtual_axial_crystals_per_block() != L.va
      || sc->get_num_axial_blocks() != L.nbA || sc->get_num_transaxial_blocks() != L.nbT)
    throw vf::Skip("scanner block structure differs from the generated one");
  auto exam = std::make_shared<ExamInfo>();

  ctx.count(L.vk == 0 ? "cfg_no_gaps" : (L.vk == 1 ? "cfg_gaps_transaxial" : "cfg_gaps_transaxial_and_axial"));
  if (L.vk)
    ctx.count("scanners_with_gaps");
  ctx.count(c.D == 0 ? "cfg_max_delta_0" : (c.D == L.R - 1 ? "cfg_max_delta_full" : "cfg_max_delta_partial"));
  if (c.h == L.N / 2 - 1)
    ctx.count("cfg_full_fan");
  if (!c.sym_per_block && (L.nbT / L.bpbT > 1 && L.bpbT > 1))
    ctx.count("cfg_geo_unit_is_bucket");

  if (!checks_3d(ctx, c, pdi, exam))
    return;
  if (L.vk == 0 && rng.coin(0.6))
    {
      if (!checks_2d(ctx, c, pdi, exam))
        return;
      ctx.count("cases_with_2d_checks");
    }
  // the driver always applies (unit) geo and block factors: needs both preconditions
  if (c.geo_ok && c.block_ok && rng.coin(0.35))
    if (!run_driver(ctx, c, pdi, exam))
      return;
  ctx.nontrivial = L.Rp >= 2 && L.Np >= 8 && ctx.obs["fan_entries_compared"] > 0;
}

int
main(int argc, char** argv)
{
  vg::quiet();
  return vf::verif_main(argc, argv, "C20", run_case);
}
