// Seeded generators for scanners, projection-data geometries, images (DESIGN.md §1 "input reach").
#ifndef VERIF_COMMON_GEN_H
#define VERIF_COMMON_GEN_H

#include "common/verif.h"
#include "stir/Scanner.h"
#include "stir/ProjDataInfo.h"
#include "stir/ProjDataInfoCylindricalNoArcCorr.h"
#include "stir/ProjDataInfoCylindricalArcCorr.h"
#include "stir/VoxelsOnCartesianGrid.h"
#include "stir/IndexRange3D.h"
#include "stir/CartesianCoordinate3D.h"
#include "stir/Bin.h"
#include "stir/shared_ptr.h"
#include "stir/TextWriter.h"
#include "stir/Verbosity.h"
#include "stir/Succeeded.h"

namespace vg {
using vf::Desc;
using vf::Rng;

// silence STIR's info/warning/error text (errors still throw)
struct NullWriter : public stir::aTextWriter
{
  void write(const char*) const override {}
};
inline void
quiet()
{
  static NullWriter nw;
  stir::TextWriterHandle h;
  h.set_information_channel(&nw);
  h.set_warning_channel(&nw);
  h.set_error_channel(&nw);
  stir::Verbosity::set(0);
}

inline std::vector<int>
divisors(int n)
{
  std::vector<int> d;
  for (int i = 1; i <= n; ++i)
    if (n % i == 0)
      d.push_back(i);
  return d;
}

struct ScannerSpec
{
  int ndet = 16;
  int nrings = 2;
  float radius = 100.f;
  float doi = 0.f;
  float ring_spacing = 4.f;
  float bin_size = 2.f;
  float tilt = 0.f;
  int trans_per_block = 1;
  int axial_per_block = 1;
  int tof_bins = 0; // max number of unmashed timing positions (0: non-TOF)
  float tof_size = 0.f;
  float tof_res = 0.f;
  std::string geom = "Cylindrical";
  int max_nonarc_bins = 0; // 0: derive
  Desc desc() const
  {
    Desc d;
    d.add("ndet", ndet).add("nrings", nrings).add("radius", radius).add("doi", doi).add("ring_spacing", ring_spacing).add("bin_size", bin_size);
    d.add("tilt", tilt).add("trans_per_block", trans_per_block).add("axial_per_block", axial_per_block).add("tof_bins", tof_bins);
    d.add("tof_size", tof_size).add("tof_res", tof_res).add("geom", geom);
    return d;
  }
};

inline stir::shared_ptr<stir::Scanner>
make_scanner(const ScannerSpec& s)
{
  using namespace stir;
  const int maxbins = s.max_nonarc_bins > 0 ? s.max_nonarc_bins : std::min(s.ndet / 2 + 1, s.ndet - 1);
  shared_ptr<Scanner> sc;
  const float axial_crystal_spacing = s.ring_spacing;
  const float transaxial_crystal_spacing = static_cast<float>(2 * 3.14159265358979 * s.radius / s.ndet) * 0.95f;
  if (s.geom == "Cylindrical")
    sc.reset(new Scanner(Scanner::User_defined_scanner, std::string("verif_gen"), s.ndet, s.nrings, maxbins, maxbins, s.radius, s.doi,
                         s.ring_spacing, s.bin_size, s.tilt,
                         /*axial blocks per bucket*/ 1, /*transaxial blocks per bucket*/ 1,
                         /*axial crystals per block*/ s.axial_per_block, /*transaxial crystals per block*/ s.trans_per_block,
                         /*axial crystals per singles unit*/ 1, /*trans crystals per singles unit*/ 1, /*layers*/ 1,
                         /*energy res*/ 0.14f, /*ref energy*/ 511.f, static_cast<short>(s.tof_bins > 0 ? s.tof_bins : -1),
                         s.tof_bins > 0 ? s.tof_size : -1.f, s.tof_bins > 0 ? s.tof_res : -1.f));
  else
    sc.reset(new Scanner(Scanner::User_defined_scanner, std::string("verif_gen_blocks"), s.ndet, s.nrings, maxbins, maxbins, s.radius,
                         s.doi, s.ring_spacing, s.bin_size, s.tilt,
                         /*axial blocks per bucket*/ s.nrings / s.axial_per_block, /*transaxial blocks per bucket*/ 1,
                         s.axial_per_block, s.trans_per_block, 1, 1, 1, 0.14f, 511.f, static_cast<short>(s.tof_bins > 0 ? s.tof_bins : -1),
                         s.tof_bins > 0 ? s.tof_size : -1.f, s.tof_bins > 0 ? s.tof_res : -1.f, s.geom, axial_crystal_spacing,
                         transaxial_crystal_spacing, axial_crystal_spacing * s.axial_per_block,
                         transaxial_crystal_spacing * s.trans_per_block + 0.5f));
  return sc;
}

struct ScannerOpts
{
  int min_det = 8, max_det = 48; // even numbers
  int min_rings = 1, max_rings = 5;
  double p_tof = 0.3;
  bool allow_tilt = true;
  bool allow_blocks = false;
};

inline ScannerSpec
gen_scanner(Rng& rng, const ScannerOpts& o = ScannerOpts())
{
  ScannerSpec s;
  s.ndet = 2 * static_cast<int>(rng.range((o.min_det + 1) / 2, o.max_det / 2));
  s.nrings = static_cast<int>(rng.range(o.min_rings, o.max_rings));
  s.radius = static_cast<float>(rng.uniform(60., 400.));
  s.doi = rng.coin(0.5) ? 0.f : static_cast<float>(rng.uniform(1., 10.));
  s.ring_spacing = static_cast<float>(rng.uniform(2., 8.));
  s.bin_size = static_cast<float>(3.14159265 * s.radius / s.ndet * rng.uniform(0.8, 1.1));
  s.tilt = (o.allow_tilt && rng.coin(0.3)) ? static_cast<float>(rng.uniform(-0.3, 0.3)) : 0.f;
  s.trans_per_block = rng.pick(divisors(s.ndet));
  s.axial_per_block = rng.pick(divisors(s.nrings));
  if (rng.coin(o.p_tof))
    {
      static const std::vector<int> tb = { 3, 5, 9, 15 };
      s.tof_bins = rng.pick(tb);
      // coincidence window roughly covering the FOV: size*bins ~ 2*2R/c ; keep it in STIR's accepted interval
      const double window_ps = 4. * s.radius / 0.299792458 * rng.uniform(0.8, 1.3);
      s.tof_size = static_cast<float>(window_ps / s.tof_bins);
      s.tof_res = static_cast<float>(s.tof_size * rng.uniform(0.8, 3.));
    }
  if (o.allow_blocks && rng.coin(0.3))
    s.geom = "BlocksOnCylindrical";
  return s;
}

struct PdiSpec
{
  int span = 1;
  int max_delta = 0;
  int num_views = 0;
  int num_tang = 0;
  bool arccorr = false;
  int tof_mash = 1;
  bool ge_mixed = false; // ProjDataInfoGE (mixed span)
  int reduce_segments = -1; // if >=0 : reduce_segment_range(-r, r)
  Desc desc() const
  {
    Desc d;
    d.add("span", span).add("max_delta", max_delta).add("num_views", num_views).add("num_tang", num_tang).add("arccorr", arccorr);
    d.add("tof_mash", tof_mash).add("ge_mixed", ge_mixed).add("reduce_segments", reduce_segments);
    return d;
  }
};

struct PdiOpts
{
  bool allow_even_span = true;
  bool allow_view_mash = true;
  bool allow_arccorr = false;
  bool allow_ge = true;
  bool allow_reduce = true;
  bool allow_tang_truncation = true;
  int max_span = 99;
};

inline PdiSpec
gen_pdi(Rng& rng, const ScannerSpec& s, const PdiOpts& o = PdiOpts())
{
  PdiSpec p;
  const int R = s.nrings;
  if (o.allow_ge && R >= 3 && rng.coin(0.1))
    {
      p.ge_mixed = true;
      p.max_delta = static_cast<int>(rng.range(1, R - 1));
    }
  else
    {
      // span in 1..min(2R-1, max_span)
      std::vector<int> spans;
      for (int sp = 1; sp <= std::min(2 * R - 1, o.max_span); ++sp)
        if (sp % 2 == 1 || o.allow_even_span)
          spans.push_back(sp);
      p.span = rng.coin(0.4) ? 1 : rng.pick(spans);
      const int lo = (p.span - 1) / 2;
      // even ("GE style") span: segment 0 covers -span/2..span/2
      const int lo_even = p.span / 2;
      const int mn = p.span % 2 ? lo : lo_even;
      if (mn > R - 1)
        p.span = 1;
      const int mn2 = p.span % 2 ? (p.span - 1) / 2 : p.span / 2;
      p.max_delta = static_cast<int>(rng.range(mn2, R - 1));
    }
  const int maxviews = s.ndet / 2;
  if (o.allow_view_mash && rng.coin(0.4))
    p.num_views = maxviews / rng.pick(divisors(maxviews));
  else
    p.num_views = maxviews;
  const int maxtang = (s.ndet / 2 + 1 > s.ndet - 1) ? s.ndet - 1 : s.ndet / 2 + 1;
  if (o.allow_tang_truncation && rng.coin(0.4))
    p.num_tang = static_cast<int>(rng.range(1, maxtang));
  else
    p.num_tang = maxtang;
  p.arccorr = o.allow_arccorr && rng.coin(0.3);
  if (s.tof_bins > 0)
    {
      std::vector<int> ok;
      for (int m = 1; m <= s.tof_bins; ++m)
        if ((s.tof_bins / m) % 2 == 1)
          ok.push_back(m);
      p.tof_mash = rng.coin(0.15) ? 0 : rng.pick(ok);
    }
  else
    p.tof_mash = 0;
  if (o.allow_reduce && !p.ge_mixed && rng.coin(0.2))
    p.reduce_segments = 0; // resolved against the real max segment below
  return p;
}

inline stir::shared_ptr<stir::ProjDataInfo>
make_pdi(const stir::shared_ptr<stir::Scanner>& sc, PdiSpec& p, Rng* rng = nullptr)
{
  using namespace stir;
  shared_ptr<ProjDataInfo> pdi;
  if (p.ge_mixed)
    pdi.reset(ProjDataInfo::ProjDataInfoGE(sc, p.max_delta, p.num_views, p.num_tang, p.arccorr, p.tof_mash));
  else
    pdi = ProjDataInfo::construct_proj_data_info(sc, p.span, p.max_delta, p.num_views, p.num_tang, p.arccorr, p.tof_mash);
  if (p.reduce_segments >= 0)
    {
      const int mx = pdi->get_max_segment_num();
      const int r = rng ? static_cast<int>(rng->range(0, mx)) : std::min(p.reduce_segments, mx);
      p.reduce_segments = r;
      pdi->reduce_segment_range(-r, r);
    }
  return pdi;
}

// ---------------------------------------------------------------- images
struct ImageSpec
{
  int nx = 5, ny = 5, nz = 3;
  float vx = 4.f, vy = 4.f, vz = 4.f;
  float ox = 0.f, oy = 0.f, oz = 0.f;
  int min_z = 0;
  Desc desc() const
  {
    Desc d;
    d.add("nx", nx).add("ny", ny).add("nz", nz).add("vx", vx).add("vy", vy).add("vz", vz).add("ox", ox).add("oy", oy).add("oz", oz);
    return d;
  }
};

inline stir::shared_ptr<stir::VoxelsOnCartesianGrid<float>>
make_image(const ImageSpec& s)
{
  using namespace stir;
  const int minx = -(s.nx / 2), miny = -(s.ny / 2);
  IndexRange3D r(s.min_z, s.min_z + s.nz - 1, miny, miny + s.ny - 1, minx, minx + s.nx - 1);
  shared_ptr<VoxelsOnCartesianGrid<float>> im(
      new VoxelsOnCartesianGrid<float>(r, CartesianCoordinate3D<float>(s.oz, s.oy, s.ox), CartesianCoordinate3D<float>(s.vz, s.vy, s.vx)));
  return im;
}

template <class ImageT>
inline void
fill_random(ImageT& im, Rng& rng, double lo, double hi)
{
  for (auto it = im.begin_all(); it != im.end_all(); ++it)
    *it = static_cast<float>(rng.uniform(lo, hi));
}

} // namespace vg
#endif
