// Shared construction for C07 (OSMAPOSL) and C08 (OSSPS): a small generated PET geometry with the explicit system
// matrix G held sparsely in double (rows taken from a ProjMatrixByBinUsingRayTracing configured exactly like the one in
// the objective function), generated data (counts y, additive term a, normalisation factors n) following the model the
// class documents (mean = (G lambda + a)/n), a recording objective function, and float64 reference updates with
// computed float32 acceptance bands (DESIGN.md §5).
//
// Documented truncations that are part of the model (DESIGN §5):
//  * divide_and_truncate (recon_array_functions.cxx): numerator <= max(numerator viewgram)*1e-6 -> 0; quotient capped at 1e4
//  * divide (numerics/divide.inl): |num| and |den| both <= max(num)*small_num -> 0
//  * OSSPS: denominator thresholded from below to 1e-5 * its smallest positive element
// Bins / voxels closer to one of these switching points than the float32 band are excluded (and counted).
#ifndef VERIF_COMMON_RECON_REF_H
#define VERIF_COMMON_RECON_REF_H

#include "common/verif.h"
#include "common/gen.h"
#include "stir/ProjDataInMemory.h"
#include "stir/ExamInfo.h"
#include "stir/SegmentByView.h"
#include "stir/ViewSegmentNumbers.h"
#include "stir/DiscretisedDensity.h"
#include "stir/recon_buildblock/ProjMatrixByBinUsingRayTracing.h"
#include "stir/recon_buildblock/ProjMatrixElemsForOneBin.h"
#include "stir/recon_buildblock/ProjectorByBinPairUsingProjMatrixByBin.h"
#include "stir/recon_buildblock/PoissonLogLikelihoodWithLinearModelForMeanAndProjData.h"
#include "stir/recon_buildblock/BinNormalisationFromProjData.h"
#include "stir/recon_buildblock/DataSymmetriesForBins.h"
#include "stir/recon_buildblock/find_basic_vs_nums_in_subsets.h"
#include "stir/recon_buildblock/QuadraticPrior.h"
#include "stir/recon_buildblock/RelativeDifferencePrior.h"
#include "stir/IO/read_from_file.h"
#include <cstring>

namespace rr {
using namespace stir;
using vf::EPS32;

typedef DiscretisedDensity<3, float> Target;
typedef PoissonLogLikelihoodWithLinearModelForMeanAndProjData<Target> ObjFn;

// ------------------------------------------------------------------------------------------------ configuration
struct Cfg
{
  int ndet = 16, nrings = 2, max_delta = 1, num_tang = 7;
  float radius = 200.f, ring_spacing = 4.f, bin_size = 0.f;
  int nxy = 7;
  float vxy = 4.f;
  bool sym90 = true, sym180 = true, swap_seg = true, swap_s = true, shift_z = true, restrict_fov = true;
  bool additive = false, norm = false;
  vf::Desc desc() const
  {
    vf::Desc d;
    d.add("ndet", ndet).add("nrings", nrings).add("max_delta", max_delta).add("num_tang", num_tang).add("radius", radius);
    d.add("ring_spacing", ring_spacing).add("bin_size", bin_size).add("nxy", nxy).add("vxy", vxy);
    d.add("sym90", sym90).add("sym180", sym180).add("swap_seg", swap_seg).add("swap_s", swap_s).add("shift_z", shift_z);
    d.add("restrict_fov", restrict_fov).add("additive", additive).add("norm", norm);
    return d;
  }
};

// all lengths are multiples of 1/8 mm with at most 6 significant digits, so that an Interfile header (written with 6
// significant digits, DESIGN §7 #10 - C10's subject) reproduces the geometry exactly
inline float
round8(double x)
{
  return static_cast<float>(std::max(1., std::floor(x * 8 + 0.5)) / 8.);
}

inline void
gen_cfg(vf::Rng& rng, Cfg& c, bool thorough)
{
  c.ndet = 2 * static_cast<int>(rng.range(4, thorough ? 14 : 12)); // 8..24(28) detectors, 4..12(14) views
  c.nrings = static_cast<int>(rng.range(1, 3));
  c.max_delta = static_cast<int>(rng.range(0, c.nrings - 1));
  static const std::vector<float> radii = { 80.f, 100.f, 150.f, 200.f, 320.f };
  c.radius = rng.pick(radii);
  static const std::vector<float> spacings = { 3.f, 4.f, 5.f, 6.5f };
  c.ring_spacing = rng.pick(spacings);
  c.bin_size = round8(3.14159265 * c.radius / c.ndet * rng.uniform(0.85, 1.05));
  c.num_tang = static_cast<int>(rng.range(3, std::min(c.ndet - 1, 11)));
  c.nxy = 2 * static_cast<int>(rng.range(2, 4)) + 1; // 5,7,9
  c.vxy = round8(c.num_tang * c.bin_size / c.nxy * rng.uniform(0.6, 1.15));
  if (rng.coin(0.2))
    c.sym90 = c.sym180 = c.swap_seg = c.swap_s = c.shift_z = false;
  else
    {
      c.sym90 = rng.coin(0.7);
      c.sym180 = rng.coin(0.7);
      c.swap_seg = rng.coin(0.7);
      c.swap_s = rng.coin(0.7);
      c.shift_z = rng.coin(0.7);
    }
  c.restrict_fov = rng.coin(0.7);
  c.additive = rng.coin(0.5);
  c.norm = rng.coin(0.5);
}

inline shared_ptr<ProjMatrixByBinUsingRayTracing>
make_matrix(const Cfg& c)
{
  shared_ptr<ProjMatrixByBinUsingRayTracing> m(new ProjMatrixByBinUsingRayTracing());
  m->set_restrict_to_cylindrical_FOV(c.restrict_fov);
  m->set_do_symmetry_90degrees_min_phi(c.sym90);
  m->set_do_symmetry_180degrees_min_phi(c.sym180);
  m->set_do_symmetry_swap_segment(c.swap_seg);
  m->set_do_symmetry_swap_s(c.swap_s);
  m->set_do_symmetry_shift_z(c.shift_z);
  return m;
}

struct BinRec
{
  int seg, view, ax, tang;
};

// ------------------------------------------------------------------------------------------------ the generated world
struct World
{
  Cfg c;
  shared_ptr<ExamInfo> exam;
  shared_ptr<Scanner> sc;
  shared_ptr<ProjDataInfo> pdi;
  shared_ptr<VoxelsOnCartesianGrid<float>> image;
  shared_ptr<ProjMatrixByBinUsingRayTracing> refM;
  int nz = 0, ny = 0, nx = 0, z0 = 0, y0 = 0, x0 = 0, nvox = 0;
  int min_seg = 0, max_seg = 0, min_view = 0, nviews = 0, min_tang = 0, ntang = 0, nbins = 0, nvg = 0;
  std::vector<int> seg_off, min_ax, nax;
  std::vector<BinRec> bins;
  std::vector<int> rowptr, col;
  std::vector<double> val;
  std::vector<int> basic_view; // per bin: view number of the basic view/segment it is processed with
  std::vector<int> vgram;      // per bin: index of its viewgram
  std::vector<float> y, a, nrm;
  std::vector<double> vg_small; // per viewgram: max(y)*1e-6 (numerator threshold of divide_and_truncate)
  shared_ptr<ProjDataInMemory> y_pd, a_pd, n_pd;
  std::vector<int> balanced; // numbers of subsets with equal viewgram counts (what the balance check accepts)
  double total_counts = 0;
  long nnz = 0;

  int index(int seg, int view, int ax, int tang) const
  {
    const int si = seg - min_seg;
    return seg_off[si] + ((view - min_view) * nax[si] + (ax - min_ax[si])) * ntang + (tang - min_tang);
  }
  int subset_of(int b, int N) const { return (basic_view[b] - min_view) % N; }

  shared_ptr<Target> img_from(const std::vector<float>& v) const
  {
    shared_ptr<Target> t(image->get_empty_copy());
    size_t i = 0;
    for (auto it = t->begin_all(); it != t->end_all(); ++it, ++i)
      *it = v[i];
    return t;
  }
  static std::vector<float> vec_from(const Target& t)
  {
    std::vector<float> v;
    for (auto it = t.begin_all_const(); it != t.end_all_const(); ++it)
      v.push_back(*it);
    return v;
  }
  std::string vox_name(int j) const
  {
    const int x = j % nx, yy = (j / nx) % ny, z = j / (nx * ny);
    return vf::fmt("voxel(z%d,y%d,x%d)", z + z0, yy + y0, x + x0);
  }
  shared_ptr<ProjDataInMemory> make_pd(const std::vector<float>& vals) const
  {
    shared_ptr<ProjDataInMemory> pd(new ProjDataInMemory(exam, pdi));
    for (int s = min_seg; s <= max_seg; ++s)
      {
        SegmentByView<float> seg = pd->get_empty_segment_by_view(s);
        const int si = s - min_seg;
        for (int vw = min_view; vw < min_view + nviews; ++vw)
          for (int ax = min_ax[si]; ax < min_ax[si] + nax[si]; ++ax)
            for (int t = min_tang; t < min_tang + ntang; ++t)
              seg[vw][ax][t] = vals[index(s, vw, ax, t)];
        if (pd->set_segment(seg) != Succeeded::yes)
          throw std::runtime_error("harness: set_segment failed");
      }
    return pd;
  }
};

inline bool
same_bits(const std::vector<float>& a, const std::vector<float>& b)
{
  return a.size() == b.size() && (a.empty() || std::memcmp(a.data(), b.data(), a.size() * sizeof(float)) == 0);
}
inline int
first_diff(const std::vector<float>& a, const std::vector<float>& b)
{
  for (size_t i = 0; i < a.size() && i < b.size(); ++i)
    if (std::memcmp(&a[i], &b[i], sizeof(float)) != 0)
      return static_cast<int>(i);
  return a.size() == b.size() ? -1 : static_cast<int>(std::min(a.size(), b.size()));
}

// geometry + explicit matrix.  Throws vf::Skip if the library rejects the configuration.
inline void
build_geometry(World& w)
{
  const Cfg& c = w.c;
  try
    {
      vg::ScannerSpec ss;
      ss.ndet = c.ndet;
      ss.nrings = c.nrings;
      ss.radius = c.radius;
      ss.ring_spacing = c.ring_spacing;
      ss.bin_size = c.bin_size;
      ss.trans_per_block = 1;
      ss.axial_per_block = 1;
      ss.max_nonarc_bins = c.num_tang;
      w.sc = vg::make_scanner(ss);
      vg::PdiSpec ps;
      ps.span = 1;
      ps.max_delta = c.max_delta;
      ps.num_views = c.ndet / 2;
      ps.num_tang = c.num_tang;
      ps.tof_mash = 0;
      w.pdi = vg::make_pdi(w.sc, ps);
      vg::ImageSpec is;
      is.nx = is.ny = c.nxy;
      is.nz = 2 * c.nrings - 1;
      is.vx = is.vy = c.vxy;
      is.vz = c.ring_spacing / 2;
      w.image = vg::make_image(is);
    }
  catch (const std::exception& e)
    {
      throw vf::Skip(std::string("geometry rejected: ") + e.what());
    }
  w.exam.reset(new ExamInfo(ImagingModality::PT));
  w.image->set_exam_info(*w.exam);
  {
    BasicCoordinate<3, int> mn, mx;
    if (!w.image->get_regular_range(mn, mx))
      throw vf::Skip("image not regular");
    w.z0 = mn[1], w.y0 = mn[2], w.x0 = mn[3];
    w.nz = mx[1] - mn[1] + 1, w.ny = mx[2] - mn[2] + 1, w.nx = mx[3] - mn[3] + 1;
    w.nvox = w.nz * w.ny * w.nx;
  }
  const ProjDataInfo& p = *w.pdi;
  w.min_seg = p.get_min_segment_num();
  w.max_seg = p.get_max_segment_num();
  w.min_view = p.get_min_view_num();
  w.nviews = p.get_num_views();
  w.min_tang = p.get_min_tangential_pos_num();
  w.ntang = p.get_num_tangential_poss();
  w.nbins = 0;
  for (int s = w.min_seg; s <= w.max_seg; ++s)
    {
      w.seg_off.push_back(w.nbins);
      w.min_ax.push_back(p.get_min_axial_pos_num(s));
      w.nax.push_back(p.get_num_axial_poss(s));
      w.nbins += w.nviews * w.nax.back() * w.ntang;
    }
  w.nvg = (w.max_seg - w.min_seg + 1) * w.nviews;
  w.bins.resize(w.nbins);
  w.vgram.resize(w.nbins);
  for (int s = w.min_seg; s <= w.max_seg; ++s)
    for (int vw = w.min_view; vw < w.min_view + w.nviews; ++vw)
      for (int ax = w.min_ax[s - w.min_seg]; ax < w.min_ax[s - w.min_seg] + w.nax[s - w.min_seg]; ++ax)
        for (int t = w.min_tang; t < w.min_tang + w.ntang; ++t)
          {
            const int b = w.index(s, vw, ax, t);
            w.bins[b] = BinRec{ s, vw, ax, t };
            w.vgram[b] = (s - w.min_seg) * w.nviews + (vw - w.min_view);
          }
  w.refM = make_matrix(c);
  try
    {
      w.refM->set_up(w.pdi, w.image);
    }
  catch (const std::exception& e)
    {
      throw vf::Skip(std::string("matrix set_up rejected: ") + e.what());
    }
  // rows (duplicates merged; planes outside the image dropped exactly as ProjMatrixElemsForOneBin::forward/back_project do)
  w.rowptr.assign(1, 0);
  w.basic_view.resize(w.nbins);
  ProjMatrixElemsForOneBin row;
  std::vector<std::pair<int, double>> tmp;
  const DataSymmetriesForBins* sym = w.refM->get_symmetries_ptr();
  for (int b = 0; b < w.nbins; ++b)
    {
      const BinRec& br = w.bins[b];
      Bin bin(br.seg, br.view, br.ax, br.tang);
      w.refM->get_proj_matrix_elems_for_one_bin(row, bin);
      tmp.clear();
      for (auto it = row.begin(); it != row.end(); ++it)
        {
          const int z = it->coord1(), yy = it->coord2(), xx = it->coord3();
          if (z < w.z0 || z >= w.z0 + w.nz)
            continue;
          if (yy < w.y0 || yy >= w.y0 + w.ny || xx < w.x0 || xx >= w.x0 + w.nx)
            throw vf::Skip("matrix row addresses a voxel outside the transaxial image range");
          tmp.push_back({ ((z - w.z0) * w.ny + (yy - w.y0)) * w.nx + (xx - w.x0), static_cast<double>(it->get_value()) });
        }
      std::sort(tmp.begin(), tmp.end(),
                [](const std::pair<int, double>& p1, const std::pair<int, double>& p2) { return p1.first < p2.first; });
      for (size_t i = 0; i < tmp.size(); ++i)
        {
          if (i > 0 && tmp[i].first == tmp[i - 1].first)
            w.val.back() += tmp[i].second;
          else
            {
              w.col.push_back(tmp[i].first);
              w.val.push_back(tmp[i].second);
            }
        }
      w.rowptr.push_back(static_cast<int>(w.col.size()));
      ViewSegmentNumbers vs(br.view, br.seg);
      sym->find_basic_view_segment_numbers(vs);
      w.basic_view[b] = vs.view_num();
    }
  w.nnz = 0;
  for (double v : w.val)
    if (v != 0)
      ++w.nnz;
  // numbers of subsets the balance check accepts: equal number of viewgrams (counted through the symmetries) per subset
  w.balanced.clear();
  for (int N = 1; N <= w.nviews; ++N)
    {
      long n0 = -1;
      bool equal = true;
      for (int s = 0; s < N && equal; ++s)
        {
          long n = 0;
          for (const ViewSegmentNumbers& vs : detail::find_basic_vs_nums_in_subset(*w.pdi, *sym, w.min_seg, w.max_seg, s, N))
            n += sym->num_related_view_segment_numbers(vs);
          if (s == 0)
            n0 = n;
          else
            equal = n == n0;
        }
      if (equal)
        w.balanced.push_back(N);
    }
}

inline std::vector<double>
fwd(const World& w, const std::vector<float>& x)
{
  std::vector<double> r(w.nbins, 0.);
  for (int b = 0; b < w.nbins; ++b)
    {
      double s = 0;
      for (int k = w.rowptr[b]; k < w.rowptr[b + 1]; ++k)
        s += w.val[k] * static_cast<double>(x[w.col[k]]);
      r[b] = s;
    }
  return r;
}

// data following the documented model: y ~ Poisson((G truth + a)/n); returns the truth image (for scaling start images)
inline std::vector<float>
gen_data(World& w, vf::Rng& rng, vf::Ctx& ctx)
{
  const Cfg& c = w.c;
  std::vector<float> truth(w.nvox);
  for (auto& x : truth)
    x = static_cast<float>(rng.uniform(0.5, 2.));
  if (rng.coin(0.5)) // a hot region
    for (int j = 0; j < w.nvox; ++j)
      if (rng.coin(0.15))
        truth[j] *= 4.f;
  std::vector<double> F = fwd(w, truth);
  double meanF = 0;
  long nrows = 0;
  for (int b = 0; b < w.nbins; ++b)
    if (w.rowptr[b + 1] > w.rowptr[b])
      {
        meanF += F[b];
        ++nrows;
      }
  if (nrows == 0 || meanF <= 0)
    throw vf::Skip("no bin sees the image");
  meanF /= nrows;
  // scale the truth such that the mean count of a bin that sees the image is between ~0.5 and ~50
  const double target = std::pow(10., rng.uniform(-0.3, 1.7));
  const float sc = static_cast<float>(target / meanF);
  for (auto& x : truth)
    x *= sc;
  F = fwd(w, truth);
  w.nrm.assign(w.nbins, 1.f);
  if (c.norm)
    {
      for (auto& x : w.nrm)
        x = static_cast<float>(rng.uniform(0.5, 2.));
      w.n_pd = w.make_pd(w.nrm);
    }
  w.a.assign(w.nbins, 0.f);
  if (c.additive)
    {
      const double level = target * std::pow(10., rng.uniform(-1.5, 0.));
      for (auto& x : w.a)
        x = static_cast<float>(level * rng.uniform(0.2, 1.5));
      w.a_pd = w.make_pd(w.a);
    }
  w.y.assign(w.nbins, 0.f);
  w.total_counts = 0;
  for (int b = 0; b < w.nbins; ++b)
    {
      const double mean = (F[b] + w.a[b]) / w.nrm[b];
      const long cnt = std::min<long>(rng.poisson(mean), 100000);
      w.y[b] = static_cast<float>(cnt);
      w.total_counts += cnt;
    }
  w.y_pd = w.make_pd(w.y);
  w.vg_small.assign(w.nvg, 0.);
  for (int b = 0; b < w.nbins; ++b)
    w.vg_small[w.vgram[b]] = std::max(w.vg_small[w.vgram[b]], static_cast<double>(w.y[b]) * 1e-6);
  (void)ctx;
  return truth;
}

// ------------------------------------------------------------------------------------------------ priors
struct PriorSpec
{
  int kind = 0; // 0 none, 1 quadratic, 2 relative difference, 3 quadratic whose surrogate curvature claims to depend on the image
  float beta = 1.f;
  bool only_2D = false;
  float gamma = 2.f, eps = 0.f;
  bool kappa = false;
  std::vector<float> kappa_vals;
  vf::Desc desc() const
  {
    vf::Desc d;
    static const char* names[] = { "none", "quadratic", "relative-difference", "quadratic(recompute-curvature)" };
    d.add("kind", names[kind]).add("beta", beta).add("only_2D", only_2D).add("gamma", gamma).add("epsilon", eps).add("kappa", kappa);
    return d;
  }
};

// a quadratic prior that keeps PriorWithParabolicSurrogate's default answer (curvature depends on the argument), to drive
// OSSPS through its "recompute the penalty term of the denominator at every sub-iteration" path
class QuadraticPriorRecompute : public QuadraticPrior<float>
{
public:
  QuadraticPriorRecompute(bool only_2D, float beta)
      : QuadraticPrior<float>(only_2D, beta)
  {}
  bool parabolic_surrogate_curvature_depends_on_argument() const override { return true; }
};

inline shared_ptr<GeneralisedPrior<Target>>
make_prior(const World& w, const PriorSpec& p)
{
  shared_ptr<GeneralisedPrior<Target>> r;
  if (p.kind == 0)
    return r;
  shared_ptr<Target> kap;
  if (p.kappa)
    kap = w.img_from(p.kappa_vals);
  if (p.kind == 1 || p.kind == 3)
    {
      shared_ptr<QuadraticPrior<float>> q;
      if (p.kind == 1)
        q.reset(new QuadraticPrior<float>(p.only_2D, p.beta));
      else
        q.reset(new QuadraticPriorRecompute(p.only_2D, p.beta));
      if (p.kappa)
        q->set_kappa_sptr(kap);
      r = q;
    }
  else
    {
      shared_ptr<RelativeDifferencePrior<float>> q(new RelativeDifferencePrior<float>(p.only_2D, p.beta, p.gamma, p.eps));
      if (p.kappa)
        q->set_kappa_sptr(kap);
      r = q;
    }
  return r;
}

// The prior's own gradient / surrogate curvature at a given image, from a separate set-up instance (the priors
// themselves are C09's subject; here only their *use* in the update is checked).  Deterministic float arithmetic: the
// reconstruction's internal call on the same image yields the same bits.
struct PriorProbe
{
  shared_ptr<GeneralisedPrior<Target>> prior;
  const World* w = nullptr;
  void init(const World& world, const PriorSpec& p)
  {
    w = &world;
    prior = make_prior(world, p);
    if (prior)
      {
        shared_ptr<Target> t(world.image->clone());
        prior->set_up(t);
      }
  }
  std::vector<float> gradient(const std::vector<float>& lam) const
  {
    shared_ptr<Target> in = w->img_from(lam), out(w->image->get_empty_copy());
    prior->compute_gradient(*out, *in);
    return World::vec_from(*out);
  }
  std::vector<float> curvature(const std::vector<float>& lam) const
  {
    shared_ptr<Target> in = w->img_from(lam), out(w->image->get_empty_copy());
    dynamic_cast<PriorWithParabolicSurrogate<Target>&>(*prior).parabolic_surrogate_curvature(*out, *in);
    return World::vec_from(*out);
  }
};

// ------------------------------------------------------------------------------------------------ recording objective function
class RecObj : public ObjFn
{
public:
  struct Call
  {
    int subset;
    bool add_sens;
    std::vector<float> input;
  };
  std::vector<Call> calls;

protected:
  void actual_compute_subset_gradient_without_penalty(Target& gradient, const Target& current, const int subset_num,
                                                      const bool add_sensitivity) override
  {
    calls.push_back(Call{ subset_num, add_sensitivity, World::vec_from(current) });
    ObjFn::actual_compute_subset_gradient_without_penalty(gradient, current, subset_num, add_sensitivity);
  }
};

inline shared_ptr<RecObj>
make_objective(const World& w, int N, const PriorSpec& p, bool use_subset_sens)
{
  shared_ptr<RecObj> o(new RecObj);
  o->set_proj_data_sptr(w.y_pd);
  shared_ptr<ProjMatrixByBin> m = make_matrix(w.c);
  shared_ptr<ProjectorByBinPair> pair(new ProjectorByBinPairUsingProjMatrixByBin(m));
  o->set_projector_pair_sptr(pair);
  if (w.c.norm)
    o->set_normalisation_sptr(shared_ptr<BinNormalisation>(new BinNormalisationFromProjData(w.n_pd)));
  if (w.c.additive)
    o->set_additive_proj_data_sptr(w.a_pd);
  o->set_use_subset_sensitivities(use_subset_sens);
  o->set_recompute_sensitivity(true);
  o->set_num_subsets(N);
  if (p.kind != 0)
    o->set_prior_sptr(make_prior(w, p));
  return o;
}

// ------------------------------------------------------------------------------------------------ reference: data ratio
// r_b = y_b / (G lambda + a)_b with divide_and_truncate's documented rules, for the bins of one subset (subset < 0: all)
struct Ratio
{
  std::vector<double> f, e, r, rband;
  std::vector<char> in, uncertain;
  long capped = 0, n_uncertain = 0, y_on_zero_estimate = 0;
};

inline void
compute_ratio(const World& w, const std::vector<float>& lam, int subset, int N, Ratio& R)
{
  R.f.assign(w.nbins, 0.), R.e.assign(w.nbins, 0.), R.r.assign(w.nbins, 0.), R.rband.assign(w.nbins, 0.);
  R.in.assign(w.nbins, 0), R.uncertain.assign(w.nbins, 0);
  R.capped = R.n_uncertain = R.y_on_zero_estimate = 0;
  for (int b = 0; b < w.nbins; ++b)
    {
      if (subset >= 0 && w.subset_of(b, N) != subset)
        continue;
      R.in[b] = 1;
      double f = 0, fabs_ = 0;
      const int nn = w.rowptr[b + 1] - w.rowptr[b];
      for (int k = w.rowptr[b]; k < w.rowptr[b + 1]; ++k)
        {
          const double t = w.val[k] * static_cast<double>(lam[w.col[k]]);
          f += t;
          fabs_ += std::fabs(t);
        }
      const double e = f + w.a[b];
      const double band_e = vf::band32(nn, fabs_) + 2 * EPS32 * (std::fabs(e) + std::fabs(static_cast<double>(w.a[b])));
      R.f[b] = f;
      R.e[b] = e;
      const double y = w.y[b];
      const double sv = w.vg_small[w.vgram[b]];
      if (y <= sv)
        {
          // counts are integers: y = 0 (sv < 1 because counts are capped at 1e5)
          R.r[b] = 0;
          continue;
        }
      if (y > 1e4 * (e + band_e) * (1 + 4 * EPS32))
        {
          R.r[b] = 1e4;
          ++R.capped;
          if (e <= band_e)
            ++R.y_on_zero_estimate;
        }
      else if (e - band_e > 0 && y < 1e4 * (e - band_e) * (1 - 4 * EPS32))
        {
          R.r[b] = y / e;
          R.rband[b] = R.r[b] * (band_e / e + 2 * EPS32);
        }
      else
        {
          R.uncertain[b] = 1;
          ++R.n_uncertain;
        }
    }
}

// ------------------------------------------------------------------------------------------------ reference: OSMAPOSL step
struct StepRef
{
  std::vector<double> ref, band, num, sens;
  std::vector<char> skip;
  long skipped = 0, capped = 0, y_on_zero_estimate = 0;
  double rf_sum = 0; // sum_b r_b f_b (= expected sum_v s_v lambda_new_v)
};

// total sensitivity (all bins) in double
inline std::vector<double>
total_sensitivity(const World& w)
{
  std::vector<double> s(w.nvox, 0.);
  for (int b = 0; b < w.nbins; ++b)
    for (int k = w.rowptr[b]; k < w.rowptr[b + 1]; ++k)
      s[w.col[k]] += w.val[k] / static_cast<double>(w.nrm[b]);
  return s;
}

// map_model: 0 no prior, 1 additive, 2 multiplicative.  prior_grad: the prior's float gradient at lam (empty if none).
inline void
em_step(const World& w, const std::vector<float>& lam, int subset, int N, bool use_subset_sens, const std::vector<float>& prior_grad,
        int map_model, StepRef& S)
{
  Ratio R;
  compute_ratio(w, lam, subset, N, R);
  const int nv = w.nvox;
  S.ref.assign(nv, 0.), S.band.assign(nv, 0.), S.num.assign(nv, 0.), S.sens.assign(nv, 0.), S.skip.assign(nv, 0);
  S.skipped = 0;
  S.capped = R.capped;
  S.y_on_zero_estimate = R.y_on_zero_estimate;
  S.rf_sum = 0;
  std::vector<double> numband(nv, 0.), sband(nv, 0.), stot(nv, 0.);
  std::vector<int> cnt(nv, 0), cnt_tot(nv, 0);
  for (int b = 0; b < w.nbins; ++b)
    {
      const double inv_n = 1. / static_cast<double>(w.nrm[b]);
      for (int k = w.rowptr[b]; k < w.rowptr[b + 1]; ++k)
        {
          stot[w.col[k]] += w.val[k] * inv_n;
          ++cnt_tot[w.col[k]];
        }
      if (!R.in[b])
        continue;
      S.rf_sum += R.r[b] * R.f[b];
      for (int k = w.rowptr[b]; k < w.rowptr[b + 1]; ++k)
        {
          const int v = w.col[k];
          const double p = w.val[k];
          S.num[v] += p * R.r[b];
          numband[v] += p * R.rband[b];
          S.sens[v] += p * inv_n;
          ++cnt[v];
          if (R.uncertain[b] && p != 0)
            S.skip[v] = 1;
        }
    }
  double num_max = 0;
  for (int v = 0; v < nv; ++v)
    {
      numband[v] += vf::band32(cnt[v], S.num[v]);
      if (use_subset_sens)
        sband[v] = vf::band32(cnt[v], S.sens[v]) + 2 * EPS32 * S.sens[v];
      else
        {
          // documented alternative: subset sensitivity := total sensitivity / num_subsets
          S.sens[v] = stot[v] / N;
          sband[v] = vf::band32(cnt_tot[v], S.sens[v]) + 4 * EPS32 * S.sens[v];
        }
      num_max = std::max(num_max, S.num[v]);
    }
  // threshold of divide(): max(numerator) * small_num  (0 without prior, 1e-6 with prior)
  const double sv = map_model == 0 ? 0. : num_max * 1e-6;
  for (int v = 0; v < nv; ++v)
    {
      if (S.skip[v])
        {
          ++S.skipped;
          continue;
        }
      const double s = S.sens[v];
      double den = s, denband = sband[v];
      if (map_model == 1)
        {
          const double g = static_cast<double>(prior_grad[v]) / N;
          den = std::max(std::min(g + s, s * 10), s / 10);
          denband = 10 * sband[v] + 2 * EPS32 * (std::fabs(g) + s) + 2 * EPS32 * std::fabs(den);
          if (s == 0) // clamp to [0/10, 0*10]: exactly 0
            den = denband = 0;
        }
      else if (map_model == 2)
        {
          const double q = std::max(std::min(1. + static_cast<double>(prior_grad[v]), 10.), 0.1);
          den = q * s;
          denband = q * sband[v] + 4 * EPS32 * std::fabs(den);
        }
      const double num = S.num[v], nb = numband[v];
      bool zero_branch;
      if (map_model == 0)
        {
          // divide(num, sens, 0): both exactly zero -> 0.  A voxel no bin of the subset sees has num == 0 and sens == 0 exactly.
          zero_branch = (den == 0 && num == 0);
          if (den == 0 && num != 0)
            {
              S.skip[v] = 1; // cannot happen with non-negative matrix elements and positive normalisation
              ++S.skipped;
              continue;
            }
        }
      else
        {
          const double sv_lo = sv * (1 - 1e-4), sv_hi = sv * (1 + 1e-4);
          if (std::fabs(den) + denband <= sv_lo && num + nb <= sv_lo)
            zero_branch = true;
          else if (std::fabs(den) - denband > sv_hi || num - nb > sv_hi)
            zero_branch = false;
          else if (den == 0 && num == 0)
            zero_branch = true;
          else
            {
              S.skip[v] = 1;
              ++S.skipped;
              continue;
            }
        }
      if (zero_branch)
        {
          S.ref[v] = 0;
          S.band[v] = 0;
          continue;
        }
      if (den == 0 || std::fabs(den) <= 2 * denband)
        {
          // denominator not resolved by float32: no usable reference
          S.skip[v] = 1;
          ++S.skipped;
          continue;
        }
      const double upd = num / den;
      const double l = lam[v];
      S.ref[v] = l * upd;
      S.band[v] = std::fabs(l) * (nb / std::fabs(den) + std::fabs(num) * denband / (den * den)) + 4 * EPS32 * std::fabs(S.ref[v]);
    }
}

// Poisson log-likelihood sum_b y log(ybar) - ybar, ybar = (G lambda + a)/n, with |dL/d(float rounding)| band of an evaluation that
// forward projects in float32 (accumulate_loglikelihood); ok=false if a documented truncation (estimate < y/1e4) is active
struct LogLik
{
  double L = 0, eval_band = 0;
  bool ok = true;
  std::vector<double> grad; // dL/dlambda_v
};
inline void
loglik(const World& w, const std::vector<float>& lam, LogLik& out)
{
  out.L = 0;
  out.eval_band = 0;
  out.ok = true;
  out.grad.assign(w.nvox, 0.);
  for (int b = 0; b < w.nbins; ++b)
    {
      double f = 0;
      const int nn = w.rowptr[b + 1] - w.rowptr[b];
      for (int k = w.rowptr[b]; k < w.rowptr[b + 1]; ++k)
        f += w.val[k] * static_cast<double>(lam[w.col[k]]);
      const double e = f + w.a[b], n = w.nrm[b], y = w.y[b];
      const double ybar = e / n;
      const double band_e = vf::band32(nn, std::fabs(f)) + 4 * EPS32 * std::fabs(e);
      if (y > 0)
        {
          if (!(e - band_e > 0) || ybar * (1 - 1e-3) <= y / 1e4)
            {
              out.ok = false;
              continue;
            }
          out.L += y * std::log(ybar) - ybar;
          out.eval_band += std::fabs(y / e - 1 / n) * band_e + 2 * EPS32 * std::fabs(ybar);
          for (int k = w.rowptr[b]; k < w.rowptr[b + 1]; ++k)
            out.grad[w.col[k]] += w.val[k] * (y / e - 1 / n);
        }
      else
        {
          out.L -= ybar;
          out.eval_band += band_e / n + 2 * EPS32 * std::fabs(ybar);
          for (int k = w.rowptr[b]; k < w.rowptr[b + 1]; ++k)
            out.grad[w.col[k]] -= w.val[k] / n;
        }
    }
}

// ------------------------------------------------------------------------------------------------ reference: OSSPS
// D_pre = - (approximate Hessian) 1 = sum_b G_bv q_b, q_b = (G 1)_b / (y_b n_b^2) with divide_and_truncate's rules
struct DenRef
{
  std::vector<double> D, band;
  std::vector<char> skip;
  long capped = 0, zeroed = 0, uncertain = 0;
};
inline void
precomputed_denominator(const World& w, int N, DenRef& out)
{
  const int nv = w.nvox;
  out.D.assign(nv, 0.), out.band.assign(nv, 0.), out.skip.assign(nv, 0);
  out.capped = out.zeroed = out.uncertain = 0;
  std::vector<double> g1(w.nbins, 0.), vgmax(w.nvg, 0.);
  for (int b = 0; b < w.nbins; ++b)
    {
      for (int k = w.rowptr[b]; k < w.rowptr[b + 1]; ++k)
        g1[b] += w.val[k];
      vgmax[w.vgram[b]] = std::max(vgmax[w.vgram[b]], g1[b]);
    }
  std::vector<int> cnt(nv, 0);
  std::vector<double> qb(nv, 0.);
  for (int b = 0; b < w.nbins; ++b)
    {
      const int nn = w.rowptr[b + 1] - w.rowptr[b];
      const double band_g = vf::band32(nn, g1[b]);
      const double sv = vgmax[w.vgram[b]] * 1e-6;
      const double den = static_cast<double>(w.y[b]) * w.nrm[b] * w.nrm[b];
      double q = 0, qband = 0;
      bool unc = false;
      if (g1[b] == 0 || g1[b] + band_g <= sv * (1 - 1e-3))
        {
          q = 0;
          if (g1[b] != 0)
            ++out.zeroed;
        }
      else if (g1[b] - band_g <= sv * (1 + 1e-3))
        unc = true;
      else if (g1[b] - band_g > 1e4 * den * (1 + 1e-5))
        {
          q = 1e4;
          ++out.capped;
        }
      else if (g1[b] + band_g < 1e4 * den * (1 - 1e-5))
        {
          q = g1[b] / den;
          qband = q * (band_g / g1[b] + 6 * EPS32);
        }
      else
        unc = true;
      if (unc)
        ++out.uncertain;
      for (int k = w.rowptr[b]; k < w.rowptr[b + 1]; ++k)
        {
          const int v = w.col[k];
          out.D[v] += w.val[k] * q;
          qb[v] += w.val[k] * qband;
          ++cnt[v];
          if (unc && w.val[k] != 0)
            out.skip[v] = 1;
        }
    }
  for (int v = 0; v < nv; ++v)
    out.band[v] = qb[v] + vf::band32(cnt[v], out.D[v]) + (N + 2) * EPS32 * out.D[v];
}

struct SpsRef
{
  std::vector<double> ref, band, unclamped;
  std::vector<char> skip;
  long skipped = 0, capped = 0, thresholded_den = 0;
};
// lambda_new = clamp(lambda + zeta * (N grad_S L(lambda) - prior_grad) / D, 0, U), D = max(D_pre + 2 curvature, thr)
inline void
sps_step(const World& w, const std::vector<float>& lam, int subset, int N, const std::vector<float>& prior_grad,
         const std::vector<float>& curvature, const DenRef& Dpre, double zeta, double U, SpsRef& S)
{
  Ratio R;
  compute_ratio(w, lam, subset, N, R);
  const int nv = w.nvox;
  S.ref.assign(nv, 0.), S.band.assign(nv, 0.), S.unclamped.assign(nv, 0.), S.skip.assign(nv, 0);
  S.skipped = 0;
  S.capped = R.capped;
  S.thresholded_den = 0;
  std::vector<double> grad(nv, 0.), gband(nv, 0.), gabs(nv, 0.);
  std::vector<int> cnt(nv, 0);
  for (int b = 0; b < w.nbins; ++b)
    {
      if (!R.in[b])
        continue;
      const double inv_n = 1. / static_cast<double>(w.nrm[b]);
      const double t = R.r[b] - inv_n;
      const double tband = R.rband[b] + 2 * EPS32 * (std::fabs(R.r[b]) + inv_n);
      for (int k = w.rowptr[b]; k < w.rowptr[b + 1]; ++k)
        {
          const int v = w.col[k];
          grad[v] += w.val[k] * t;
          gabs[v] += w.val[k] * std::fabs(t);
          gband[v] += w.val[k] * tband;
          ++cnt[v];
          if (R.uncertain[b] && w.val[k] != 0)
            S.skip[v] = 1;
        }
    }
  // denominator with OSSPS's threshold (1e-5 * smallest positive element; all 1e-5 if none is positive)
  std::vector<double> D(nv), Dband(nv);
  double minpos = 0;
  for (int v = 0; v < nv; ++v)
    {
      const double c2 = curvature.empty() ? 0. : 2. * static_cast<double>(curvature[v]);
      D[v] = Dpre.D[v] + c2;
      Dband[v] = Dpre.band[v] + 3 * EPS32 * std::fabs(D[v]);
      if (D[v] > 0 && (minpos == 0 || D[v] < minpos))
        minpos = D[v];
    }
  const double thr = minpos > 0 ? minpos * 1e-5 : 1e-5;
  for (int v = 0; v < nv; ++v)
    {
      if (S.skip[v] || Dpre.skip[v])
        {
          S.skip[v] = 1;
          ++S.skipped;
          continue;
        }
      double Dv = D[v], Db = Dband[v];
      if (Dv < thr)
        {
          if (Dv > 0.5 * thr || Dv < -Db || Db > 0.5 * thr)
            {
              S.skip[v] = 1;
              ++S.skipped;
              continue;
            }
          Dv = thr;
          Db = thr * 1e-3;
          ++S.thresholded_den;
        }
      const double g = prior_grad.empty() ? 0. : static_cast<double>(prior_grad[v]);
      const double G = N * grad[v] - g;
      const double Gband = N * (gband[v] + vf::band32(cnt[v], gabs[v])) + 4 * EPS32 * (std::fabs(N * grad[v]) + std::fabs(g));
      const double upd = G / Dv * zeta;
      const double updband = std::fabs(zeta) * (Gband / Dv + std::fabs(G) * Db / (Dv * Dv)) + 6 * EPS32 * std::fabs(upd);
      const double l = lam[v];
      S.unclamped[v] = l + upd;
      S.ref[v] = std::max(0., std::min(l + upd, U));
      S.band[v] = updband + 2 * EPS32 * (std::fabs(l) + std::fabs(upd));
    }
}

// ------------------------------------------------------------------------------------------------ files
// read an image written by the reconstruction; returns its values; geometry_same tells whether the object read back has
// the same characteristics as the template (Interfile header precision is C10's subject)
inline std::vector<float>
read_image_values(const World& w, const std::string& filename, shared_ptr<Target>& img, bool& geometry_same)
{
  unique_ptr<Target> r = read_from_file<Target>(filename);
  img.reset(r.release());
  geometry_same = img->has_same_characteristics(*w.image);
  return World::vec_from(*img);
}

} // namespace rr
#endif
