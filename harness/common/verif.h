// Common runtime for the monitor harnesses (see DESIGN.md §3.2).
//
// A harness is   cNN --seed S --tier T --cases N --shard i/k [--from j] [--case j]
//                    --out events.jsonl --hb heartbeat.txt
// Case j is generated from splitmix64(S, property, j) only, so any case can be replayed alone.
// Events (JSON lines): case / violation / summary.  The python driver (../../check) shards,
// watches, parses sanitizer logs and writes the evidence file.
#ifndef VERIF_COMMON_VERIF_H
#define VERIF_COMMON_VERIF_H

#include <cstdint>
#include <cstdio>
#include <cstdlib>
#include <cstring>
#include <cmath>
#include <string>
#include <vector>
#include <map>
#include <set>
#include <sstream>
#include <functional>
#include <stdexcept>
#include <iomanip>
#include <limits>
#include <algorithm>
#include <unistd.h>
#include <fcntl.h>

namespace vf {

// ---------------------------------------------------------------- PRNG
inline uint64_t splitmix64(uint64_t& x)
{
  uint64_t z = (x += 0x9e3779b97f4a7c15ULL);
  z = (z ^ (z >> 30)) * 0xbf58476d1ce4e5b9ULL;
  z = (z ^ (z >> 27)) * 0x94d049bb133111ebULL;
  return z ^ (z >> 31);
}
inline uint64_t hash_str(const std::string& s, uint64_t h = 1469598103934665603ULL)
{
  for (unsigned char c : s)
    {
      h ^= c;
      h *= 1099511628211ULL;
    }
  return h;
}
inline uint64_t mix3(uint64_t a, uint64_t b, uint64_t c)
{
  uint64_t x = a * 0x9e3779b97f4a7c15ULL ^ (b + 0x632be59bd9b4e019ULL);
  uint64_t r = splitmix64(x);
  x ^= c * 0xd1342543de82ef95ULL;
  r ^= splitmix64(x);
  return r;
}

struct Rng
{
  uint64_t s[4];
  explicit Rng(uint64_t seed = 1) { reseed(seed); }
  void reseed(uint64_t seed)
  {
    uint64_t x = seed;
    for (auto& v : s)
      v = splitmix64(x);
  }
  static uint64_t rotl(uint64_t x, int k) { return (x << k) | (x >> (64 - k)); }
  uint64_t next()
  {
    const uint64_t result = rotl(s[1] * 5, 7) * 9;
    const uint64_t t = s[1] << 17;
    s[2] ^= s[0];
    s[3] ^= s[1];
    s[1] ^= s[2];
    s[0] ^= s[3];
    s[2] ^= t;
    s[3] = rotl(s[3], 45);
    return result;
  }
  // uniform in [0,1)
  double u01() { return (next() >> 11) * (1.0 / 9007199254740992.0); }
  double uniform(double a, double b) { return a + (b - a) * u01(); }
  // integer in [a,b] inclusive
  long range(long a, long b)
  {
    if (b <= a)
      return a;
    return a + static_cast<long>(next() % static_cast<uint64_t>(b - a + 1));
  }
  bool coin(double p = 0.5) { return u01() < p; }
  template <class T>
  const T& pick(const std::vector<T>& v)
  {
    return v[static_cast<size_t>(range(0, static_cast<long>(v.size()) - 1))];
  }
  double normal()
  {
    double u1 = u01(), u2 = u01();
    if (u1 < 1e-300)
      u1 = 1e-300;
    return std::sqrt(-2 * std::log(u1)) * std::cos(6.283185307179586 * u2);
  }
  // Poisson (Knuth for small mean, normal approx for large)
  long poisson(double mean)
  {
    if (mean <= 0)
      return 0;
    if (mean > 50)
      {
        long v = std::lround(mean + std::sqrt(mean) * normal());
        return v < 0 ? 0 : v;
      }
    const double L = std::exp(-mean);
    long k = 0;
    double p = 1;
    do
      {
        ++k;
        p *= u01();
    } while (p > L);
    return k - 1;
  }
  template <class T>
  void shuffle(std::vector<T>& v)
  {
    for (size_t i = v.size(); i > 1; --i)
      std::swap(v[i - 1], v[static_cast<size_t>(range(0, static_cast<long>(i) - 1))]);
  }
};

// ---------------------------------------------------------------- tiny JSON writer
inline std::string jesc(const std::string& s)
{
  std::string o;
  o.reserve(s.size() + 2);
  for (unsigned char c : s)
    {
      switch (c)
        {
        case '"':
          o += "\\\"";
          break;
        case '\\':
          o += "\\\\";
          break;
        case '\n':
          o += "\\n";
          break;
        case '\r':
          o += "\\r";
          break;
        case '\t':
          o += "\\t";
          break;
        default:
          if (c < 0x20 || c >= 0x7f)
            {
              char b[8];
              std::snprintf(b, sizeof b, "\\u%04x", c);
              o += b;
            }
          else
            o += static_cast<char>(c);
        }
    }
  return o;
}
inline std::string jnum(double v)
{
  if (!std::isfinite(v))
    return std::string("\"") + (std::isnan(v) ? "nan" : (v > 0 ? "inf" : "-inf")) + "\"";
  std::ostringstream s;
  s << std::setprecision(17) << v;
  return s.str();
}

// JSON object builder (ordered)
class Desc
{
public:
  Desc& add(const std::string& k, const std::string& v) { return raw(k, "\"" + jesc(v) + "\""); }
  Desc& add(const std::string& k, const char* v) { return add(k, std::string(v)); }
  Desc& add(const std::string& k, double v) { return raw(k, jnum(v)); }
  Desc& add(const std::string& k, float v) { return raw(k, jnum(v)); }
  Desc& add(const std::string& k, long v) { return raw(k, std::to_string(v)); }
  Desc& add(const std::string& k, int v) { return raw(k, std::to_string(v)); }
  Desc& add(const std::string& k, unsigned v) { return raw(k, std::to_string(v)); }
  Desc& add(const std::string& k, unsigned long v) { return raw(k, std::to_string(v)); }
  Desc& add(const std::string& k, bool v) { return raw(k, v ? "true" : "false"); }
  Desc& add(const std::string& k, const Desc& d) { return raw(k, d.str()); }
  template <class T>
  Desc& add(const std::string& k, const std::vector<T>& v)
  {
    std::ostringstream s;
    s << "[";
    for (size_t i = 0; i < v.size(); ++i)
      s << (i ? "," : "") << elem(v[i]);
    s << "]";
    return raw(k, s.str());
  }
  Desc& raw(const std::string& k, const std::string& json)
  {
    if (!body.empty())
      body += ",";
    body += "\"" + jesc(k) + "\":" + json;
    return *this;
  }
  std::string str() const { return "{" + body + "}"; }
  bool empty() const { return body.empty(); }
  void clear() { body.clear(); }

private:
  static std::string elem(const std::string& s) { return "\"" + jesc(s) + "\""; }
  static std::string elem(const Desc& d) { return d.str(); }
  static std::string elem(double v) { return jnum(v); }
  static std::string elem(float v) { return jnum(v); }
  static std::string elem(int v) { return std::to_string(v); }
  static std::string elem(long v) { return std::to_string(v); }
  static std::string elem(unsigned v) { return std::to_string(v); }
  static std::string elem(unsigned long v) { return std::to_string(v); }
  static std::string elem(bool v) { return v ? "true" : "false"; }
  std::string body;
};

template <class... A>
std::string fmt(const char* f, A... a)
{
  char b[2048];
  std::snprintf(b, sizeof b, f, a...);
  return b;
}

// ---------------------------------------------------------------- per-case context
struct Ctx
{
  std::string prop;
  uint64_t seed = 0;
  long idx = 0;
  std::string tier = "quick";
  bool thorough() const { return tier == "thorough"; }
  Rng rng;
  Desc desc;                        // the case descriptor (what was generated)
  std::map<std::string, long> obs;  // counters of what the monitors observed
  bool nontrivial = false;          // set by the case according to the per-property rule
  std::set<uint64_t> sub_hashes;    // distinct non-trivial sub-evaluations inside this case
  long sub_evals = 0;
  int violations = 0;
  FILE* out = nullptr;
  std::string hb_path;
  std::string tmpdir; // per-process scratch directory (created by driver), may be empty

  void count(const std::string& k, long n = 1) { obs[k] += n; }
  // register one inner evaluation (for batch cases); hash identifies it
  void sub_eval(uint64_t h, bool nontriv)
  {
    ++sub_evals;
    if (nontriv)
      sub_hashes.insert(mix3(h, static_cast<uint64_t>(idx), 77));
  }
  // write the heartbeat (crash attribution): call once the descriptor is complete enough
  void heartbeat(const std::string& stage = "")
  {
    if (hb_path.empty())
      return;
    std::string s = "{\"idx\":" + std::to_string(idx) + ",\"stage\":\"" + jesc(stage) + "\",\"desc\":" + desc.str() + "}\n";
    int fd = ::open(hb_path.c_str(), O_WRONLY | O_CREAT | O_TRUNC, 0644);
    if (fd >= 0)
      {
        ssize_t r = ::write(fd, s.data(), s.size());
        (void)r;
        ::close(fd);
      }
  }
  // report a violation.  key: stable identifier of *what* fails (call site / input class), no numbers
  // that vary from run to run.  witness: free text / json with the failing values.
  void violation(const std::string& key, const std::string& witness)
  {
    ++violations;
    if (violations > 20)
      return; // do not flood
    std::string s = "{\"ev\":\"violation\",\"idx\":" + std::to_string(idx) + ",\"key\":\"" + jesc(key) + "\",\"witness\":\""
                    + jesc(witness) + "\",\"desc\":" + desc.str() + "}\n";
    emit(s);
  }
  void emit(const std::string& s)
  {
    if (!out)
      return;
    std::fputs(s.c_str(), out);
    std::fflush(out);
  }
};

struct Skip : std::runtime_error
{
  // thrown by a case when the library rejected the generated configuration (counted, not a violation)
  explicit Skip(const std::string& why)
      : std::runtime_error(why)
  {}
};

using CaseFn = std::function<void(Ctx&)>;

inline std::string short_what(const std::string& w)
{
  std::string o;
  for (char c : w)
    {
      if (o.size() >= 70)
        break;
      if (std::isalnum(static_cast<unsigned char>(c)))
        o += c;
      else if (!o.empty() && o.back() != '_')
        o += '_';
    }
  // digits vary between runs: strip them
  std::string p;
  for (char c : o)
    if (!std::isdigit(static_cast<unsigned char>(c)))
      p += c;
  return p;
}

inline int verif_main(int argc, char** argv, const char* prop, CaseFn run_case)
{
  uint64_t seed = 1;
  std::string tier = "quick", out_path, hb_path, tmpdir;
  long cases = 10, shard_i = 0, shard_k = 1, from = 0, only = -1;
  for (int i = 1; i < argc; ++i)
    {
      std::string a = argv[i];
      auto need = [&](const char* n) -> std::string {
        if (i + 1 >= argc)
          {
            std::fprintf(stderr, "missing value for %s\n", n);
            std::exit(2);
          }
        return argv[++i];
      };
      if (a == "--seed")
        seed = std::strtoull(need("--seed").c_str(), nullptr, 10);
      else if (a == "--tier")
        tier = need("--tier");
      else if (a == "--cases")
        cases = std::atol(need("--cases").c_str());
      else if (a == "--shard")
        {
          std::string v = need("--shard");
          std::sscanf(v.c_str(), "%ld/%ld", &shard_i, &shard_k);
        }
      else if (a == "--from")
        from = std::atol(need("--from").c_str());
      else if (a == "--case")
        only = std::atol(need("--case").c_str());
      else if (a == "--out")
        out_path = need("--out");
      else if (a == "--hb")
        hb_path = need("--hb");
      else if (a == "--tmpdir")
        tmpdir = need("--tmpdir");
      else
        {
          std::fprintf(stderr, "unknown argument %s\n", a.c_str());
          return 2;
        }
    }
  FILE* out = out_path.empty() ? stdout : std::fopen(out_path.c_str(), "a");
  if (!out)
    {
      std::perror("open --out");
      return 2;
    }
  const uint64_t ph = hash_str(prop);
  long ran = 0, total_viol = 0;
  for (long idx = (only >= 0 ? only : from); idx < (only >= 0 ? only + 1 : cases); ++idx)
    {
      if (only < 0 && (idx % shard_k) != shard_i)
        continue;
      Ctx ctx;
      ctx.prop = prop;
      ctx.seed = seed;
      ctx.idx = idx;
      ctx.tier = tier;
      ctx.rng.reseed(mix3(seed, ph, static_cast<uint64_t>(idx)));
      ctx.out = out;
      ctx.hb_path = hb_path;
      ctx.tmpdir = tmpdir;
      ctx.heartbeat("start");
      std::fprintf(stderr, "\n@@VERIF-CASE %ld@@\n", idx); // lets the driver attribute non-fatal sanitizer reports to a case
      std::fflush(stderr);
      bool skipped = false;
      std::string skip_why;
      try
        {
          run_case(ctx);
        }
      catch (const Skip& s)
        {
          skipped = true;
          skip_why = s.what();
        }
      catch (const std::exception& e)
        {
          ctx.violation(std::string("exception:") + short_what(e.what()), e.what());
        }
      catch (const std::string& e)
        {
          ctx.violation(std::string("exception:") + short_what(e), e);
        }
      catch (...)
        {
          ctx.violation("exception:unknown", "non-std exception");
        }
      ++ran;
      total_viol += ctx.violations;
      std::string s = "{\"ev\":\"case\",\"idx\":" + std::to_string(idx) + ",\"nontrivial\":" + (ctx.nontrivial && !skipped ? "true" : "false")
                      + ",\"skipped\":" + (skipped ? "true" : "false") + ",\"hash\":\"" + std::to_string(hash_str(ctx.desc.str())) + "\""
                      + ",\"sub_evals\":" + std::to_string(ctx.sub_evals) + ",\"sub_distinct\":" + std::to_string(ctx.sub_hashes.size())
                      + ",\"violations\":" + std::to_string(ctx.violations);
      if (skipped)
        s += ",\"skip_why\":\"" + jesc(short_what(skip_why)) + "\"";
      s += ",\"obs\":{";
      bool first = true;
      for (auto& kv : ctx.obs)
        {
          s += (first ? "" : ",") + std::string("\"") + jesc(kv.first) + "\":" + std::to_string(kv.second);
          first = false;
        }
      s += "},\"desc\":" + ctx.desc.str() + "}\n";
      ctx.emit(s);
    }
  std::string s = "{\"ev\":\"done\",\"ran\":" + std::to_string(ran) + ",\"violations\":" + std::to_string(total_viol) + "}\n";
  std::fputs(s.c_str(), out);
  std::fflush(out);
  if (out != stdout)
    std::fclose(out);
  // exit code 0 even with violations: the driver decides from the event log
  return 0;
}

// ---------------------------------------------------------------- tolerance helpers (DESIGN §5)
constexpr double EPS32 = 1.1920928955078125e-07; // 2^-23

// acceptance band for a float32 evaluation of a sum with n operations and absolute sum A
inline double band32(double n_ops, double abs_sum, double c = 8.0)
{
  return c * (n_ops + 2) * EPS32 * abs_sum;
}
inline bool close_enough(double got, double ref, double band)
{
  if (std::isnan(got) || std::isnan(ref))
    return false;
  return std::fabs(got - ref) <= band + 4 * EPS32 * std::fabs(ref);
}

} // namespace vf
#endif
