#!/usr/bin/env python3
"""usage: tools/c17_make_corpus.py [runs] [jobs] [max_seconds] [seed]

Development tool (not a registered check): runs a libFuzzer campaign with the C17 fuzz target on /repo's current tree, keeps every
new corpus input and artifact in /var/tmp/c17fuzz/found, and merges (libFuzzer -merge=1: smallest set with the same coverage) the
non-crashing ones into /verif/fuzz/c17_corpus, the corpus that the quick tier replays through the isolated-child oracle and the
thorough tier starts from.  Artifacts are NOT committed by this tool: each one is judged (./check C17 ... mode corpus) and becomes
a fix, a known finding, or - when the oracle accepts the outcome (e.g. arithmetic-only UBSan report, allocation refused) - nothing.
"""
import os
import shutil
import subprocess
import sys

sys.path.insert(0, os.path.dirname(os.path.dirname(os.path.abspath(__file__))))
from vlib import build, fuzzstage  # noqa: E402

runs = int(sys.argv[1]) if len(sys.argv) > 1 else 500000
jobs = int(sys.argv[2]) if len(sys.argv) > 2 else 12
secs = int(sys.argv[3]) if len(sys.argv) > 3 else 1200
seed = int(sys.argv[4]) if len(sys.argv) > 4 else 1
root = "/var/tmp/c17fuzz"
found = os.path.join(root, "found")
wd = os.path.join(root, "wd")
shutil.rmtree(wd, ignore_errors=True)
os.makedirs(wd, exist_ok=True)
os.makedirs(found, exist_ok=True)
st = dict(fuzz_runs=runs, fuzz_jobs=jobs, fuzz_max_seconds=secs, keep_new=found)
new, n, stats = fuzzstage.libfuzzer(st, seed, wd, jobs)
print("campaign:", stats)
exe = build.ensure_harness("asan", "c17_fuzz", "-fsanitize=fuzzer", "")
dst = fuzzstage.COMMITTED
os.makedirs(dst, exist_ok=True)
src = os.path.join(root, "merge_src")
shutil.rmtree(src, ignore_errors=True)
os.makedirs(src)
for f in os.listdir(found):
    if f.startswith(("crash-", "oom-", "timeout-", "leak-")):
        continue
    shutil.copy(os.path.join(found, f), os.path.join(src, f))
env = dict(os.environ)
tmp = os.path.join(root, "tmp")
os.makedirs(tmp, exist_ok=True)
env.update({"STIR_CONFIG_DIR": os.path.join(build.REPO, "src", "config"), "VERIF_C17_FUZZ_TMP": tmp, "TMPDIR": tmp,
            "ASAN_OPTIONS": "detect_leaks=0:allocator_may_return_null=1:max_allocation_size_mb=2048:handle_abort=1"})
before = len(os.listdir(dst))
subprocess.run([exe, "-merge=1", "-max_len=8192", "-timeout=25", "-rss_limit_mb=4096", dst, src], env=env, cwd=tmp,
               stdin=subprocess.DEVNULL, stdout=open(os.path.join(root, "merge.log"), "wb"), stderr=subprocess.STDOUT)
shutil.rmtree(tmp, ignore_errors=True)
print("corpus %s: %d -> %d files; artifacts to triage in %s: %d" % (
    dst, before, len(os.listdir(dst)), found, len([f for f in os.listdir(found) if f.startswith(("crash-", "oom-", "timeout-"))])))
