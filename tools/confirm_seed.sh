#!/bin/bash
# usage: tools/confirm_seed.sh <ID>     (lead's own confirmation of a seeded change, in the author's scratch worktree /tmp/seed/wt-<ID>)
#  1. patch applies to the base commit; build with the change; the baseline-passing tests still pass; demo FAILS
#  2. without the change: build; demo PASSES
# writes /tmp/seed/seed-out-<ID>/confirm.log ; exit 0 if everything is as required
set -u
id=$1
wt=/tmp/seed/wt-$id; out=/tmp/seed/seed-out-$id; log=$out/confirm.log
J=${J:-8}
: > "$log"
say() { echo "$@" | tee -a "$log"; }
cd "$wt" || exit 2
git checkout -q -- src 2>/dev/null
git apply --check "$out/patch.diff" || { say "patch does not apply to base"; exit 1; }
git apply "$out/patch.diff"; git diff --name-only | xargs -r touch
say "== build with change"; cmake --build _build -j $J >> "$log" 2>&1 || { say "BUILD FAILED with change"; exit 1; }
[ -d _build_omp ] && { say "== build _build_omp with change"; cmake --build _build_omp -j $J >> "$log" 2>&1 || { say "BUILD (omp) FAILED with change"; exit 1; }; }
say "== ctest with change"
STIR_CONFIG_DIR=$wt/src/config ctest --test-dir _build -j$J --timeout 900 > $out/ctest_with.txt 2>&1
grep -E "Test +#[0-9]+:" $out/ctest_with.txt | grep Passed | sed -E 's/.*Test +#[0-9]+: ([A-Za-z0-9_]+) .*/\1/' | sort > $out/pass_with.txt
python3 - "$out" <<'E' | tee -a "$log"
import json,sys
out=sys.argv[1]
base=set(x.split("::")[0] for x in json.load(open('/root/.vp/BASELINE.json'))['stable_pass'])
got=set(open(out+'/pass_with.txt').read().split())
miss=sorted(base-got)
print("baseline stable_pass: %d, passing with change: %d, baseline tests NOT passing with change: %s"%(len(base),len(got),miss))
open(out+'/missing.txt','w').write("\n".join(miss))
E
if [ -s $out/missing.txt ]; then
  say "== re-running the missing ones serially (parallel runs of test_IO_* share temp file names)"
  for t in $(cat $out/missing.txt); do STIR_CONFIG_DIR=$wt/src/config ctest --test-dir _build -R "^$t\$" --timeout 900 2>&1 | grep -E "Passed|Failed|\*\*\*" | tee -a "$log"; done
fi
say "== demo with change (must fail)"
(cd $out/demo && bash ./build_and_run.sh $wt) > $out/demo_with.txt 2>&1; rc_with=$?
say "demo exit with change: $rc_with"; tail -5 $out/demo_with.txt | tee -a "$log"
git checkout -q -- src; git diff --quiet || { say "could not undo"; exit 2; }
git apply -R --check "$out/patch.diff" 2>/dev/null && say "??? patch still applied"
git apply "$out/patch.diff" && git diff --name-only > /tmp/seed/.touch_$id && git checkout -q -- src && xargs -r touch < /tmp/seed/.touch_$id
say "== build without change"; cmake --build _build -j $J >> "$log" 2>&1 || { say "BUILD FAILED without change"; exit 1; }
[ -d _build_omp ] && { cmake --build _build_omp -j $J >> "$log" 2>&1 || { say "BUILD (omp) FAILED without change"; exit 1; }; }
say "== demo without change (must pass)"
(cd $out/demo && bash ./build_and_run.sh $wt) > $out/demo_without.txt 2>&1; rc_wo=$?
say "demo exit without change: $rc_wo"; tail -3 $out/demo_without.txt | tee -a "$log"
if [ $rc_with -ne 0 ] && [ $rc_wo -eq 0 ]; then say "CONFIRMED $id"; exit 0; else say "NOT CONFIRMED $id"; exit 1; fi
