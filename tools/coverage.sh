#!/bin/bash
# Development aid: function coverage of the anchor files of each property under that property's harness (rel-like flags +
# clang source-based coverage).  usage: tools/coverage.sh C03 [C05 ...]   -> /var/tmp/stir-verif-cov/report_<id>.txt
set -u
root=/var/tmp/stir-verif-cov; mkdir -p $root
t=$root/tree
if [ ! -f $t/build.ninja ]; then
  cmake -S /repo -B $t -G Ninja -DCMAKE_BUILD_TYPE=None -DBUILD_EXECUTABLES=OFF -DBUILD_TESTING=OFF -DBUILD_DOCUMENTATION=OFF \
    -DDISABLE_LLN_MATRIX=ON -DDISABLE_ITK=ON -DDISABLE_HDF5=ON -DDISABLE_CERN_ROOT=ON -DDISABLE_NiftyPET_PROJECTOR=ON \
    -DDISABLE_Parallelproj_PROJECTOR=ON -DDISABLE_UPENN=ON -DDISABLE_STIR_CUDA=ON -DGRAPHICS=None -DBUILD_SWIG_PYTHON=OFF -DSTIR_OPENMP=OFF \
    -DCMAKE_CXX_COMPILER=clang++-14 -DCMAKE_C_COMPILER=clang-14 \
    "-DCMAKE_CXX_FLAGS=-O1 -g1 -DNDEBUG -DUCL_STIR_VERIF -w -fprofile-instr-generate -fcoverage-mapping" > $root/cmake.log 2>&1 || exit 2
fi
ninja -C $t -j ${VERIF_NINJA_JOBS:-12} > $root/ninja.log 2>&1 || { tail -5 $root/ninja.log; exit 2; }
libs=$(find $t/src -name 'lib*.a' | sort); regs=$(find $t/src/CMakeFiles/stir_registries.dir -name '*.o' | sort)
for pid in "$@"; do
  h=$(python3 -c "import sys; sys.path.insert(0,'/verif'); from vlib import props; props.load(); print(props.PROPS['$pid']['harness'])")
  exe=$root/$h
  clang++-14 -std=gnu++17 -O1 -g1 -DNDEBUG -DUCL_STIR_VERIF -w -fprofile-instr-generate -fcoverage-mapping -I/repo/src/include -I$t/src/include -I/verif/harness \
     /verif/harness/$h.cxx -o $exe $regs -Wl,--start-group $libs -Wl,--end-group -lpthread -ldl > $root/$h.log 2>&1 || { tail -5 $root/$h.log; continue; }
  rm -rf $root/run_$pid; mkdir -p $root/run_$pid/tmp
  modes=$(python3 -c "import sys; sys.path.insert(0,'/verif'); from vlib import props; props.load(); print(' '.join(sorted(set(s.get('mode','-') for s in props.PROPS['$pid']['runs']['quick']))))")
  for m in $modes; do
    for sh in 0 1 2 3 4 5 6 7; do
      ( cd $root/run_$pid/tmp; [ "$m" != "-" ] && export VERIF_MODE=$m; STIR_CONFIG_DIR=/repo/src/config LLVM_PROFILE_FILE=$root/run_$pid/p.$m.$sh.profraw \
        timeout 900 $exe --seed 1 --tier quick --cases ${COV_CASES:-400} --shard $sh/8 --out $root/run_$pid/ev.$m.$sh.jsonl --hb $root/run_$pid/hb.$m.$sh.json --tmpdir $root/run_$pid/tmp > /dev/null 2>&1 < /dev/null ) &
    done; wait
  done
  llvm-profdata-14 merge -sparse $root/run_$pid/*.profraw -o $root/run_$pid/all.profdata 2>/dev/null
  files=$(python3 - "$pid" <<'P'
import json,sys
for l in open('/verif/properties.jsonl'):
    p=json.loads(l)
    if p['id']==sys.argv[1]:
        print(' '.join('/repo/'+f for f in p['anchors']['files']))
P
)
  llvm-cov-14 report $exe -instr-profile=$root/run_$pid/all.profdata -show-functions $files 2>/dev/null | c++filt > $root/report_$pid.txt
  echo "== $pid: $(grep -c . $root/report_$pid.txt) lines in $root/report_$pid.txt"
done
