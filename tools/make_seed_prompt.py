#!/usr/bin/env python3
"""usage: tools/make_seed_prompt.py <ID e.g. C03-4>   -> prompt for the author of one seeded change on stdout.

The author gets: tools/SEED_BRIEF.md, the property record from properties.jsonl, the paths of its worktree and
delivery directory, and one paragraph naming what the earlier seeded changes for the same property did (so that it
looks for another mechanism and site).  Nothing about the checks."""
import json, sys, os, glob
here = os.path.dirname(os.path.dirname(os.path.abspath(__file__)))
sid = sys.argv[1]
prop = sid.split("-")[0]
rec = None
for l in open(os.path.join(here, "properties.jsonl")):
    r = json.loads(l)
    if r["id"] == prop:
        rec = r
brief = open(os.path.join(here, "tools", "SEED_BRIEF.md")).read()
earlier = []
for d in sorted(glob.glob(os.path.join(here, "seeded", prop + "-*"))):
    try:
        m = json.load(open(os.path.join(d, "meta.json")))
    except Exception:
        continue
    s = " ".join(str(m.get("summary", "")).split())
    earlier.append("- " + s[:420])
print(brief)
print("\n## Your assignment\n")
print("Seed id: %s\nWorktree (already created for you, detached at the base commit): /tmp/seed/wt-%s\nDeliver into: /tmp/seed/seed-out-%s/\n" % (sid, sid, sid))
print("The unchanged tree is known to build and to pass all 56 tests of the suite (ctest), so you need not run the suite on the\n"
      "unchanged tree; build once (use `-j 6`, the machine is shared), make your change, rebuild, run the whole suite with the change.\n"
      "Prefer a change that needs a particular interleaving, a fault or crash at a particular point, a multi-step sequence of operations,\n"
      "an unusual input, or two cooperating sites that each look fine alone.\n")
print("### The property (%s)\n" % prop)
for k in ("title", "statement"):
    print("%s: %s\n" % (k, rec[k]))
print("quantifier: %s\n" % json.dumps(rec["quantifier"]))
print("why the existing tests cannot settle it: %s\n" % rec["why_tests_cant"])
print("anchors (where the behaviour lives): %s\n" % json.dumps(rec["anchors"]))
if earlier:
    print("### Earlier seeded changes for this property (do NOT repeat these; choose another mechanism and another site)\n")
    print("\n".join(earlier))
