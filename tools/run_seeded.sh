#!/bin/bash
# usage: tools/run_seeded.sh seeded/<id> [tier]   -- runs the property's check against a scratch worktree with the patch applied
set -u
d=$(readlink -f "$1"); tier=${2:-quick}
prop=$(python3 -c "import json,sys; print(json.load(open('$d/meta.json'))['property'])")
wt=${VERIF_SEED_WT:-/var/tmp/seeded-wt}; br=${VERIF_SEED_BUILD:-/var/tmp/seeded-build}
if [ ! -d "$wt" ]; then git -C /repo worktree add -f --detach "$wt" HEAD -q || exit 2; fi
git -C "$wt" checkout -q --detach "$(git -C /repo rev-parse HEAD)" 2>/dev/null
git -C "$wt" checkout -q -- . ; git -C "$wt" clean -qfd src
git -C "$wt" apply "$d/patch.diff" || { echo "APPLY FAILED"; exit 2; }
# make sure ninja sees the changed files as newer than any object compiled while they were being written
git -C "$wt" diff --name-only | (cd "$wt" && xargs -r touch)
mkdir -p "$br/out"
cd /verif && VERIF_OUT_DIR="$br/out" VERIF_REPO="$wt" VERIF_BUILD_ROOT="$br" VERIF_SCRATCH="$br" ./check "$prop" --tier "$tier"
rc=$?
git -C "$wt" checkout -q -- .
echo "seeded $(basename $d): check $prop exit $rc"
exit $rc
