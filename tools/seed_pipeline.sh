#!/bin/bash
# usage: tools/seed_pipeline.sh <ID>    run our check against the seeded patch (scratch worktree /var/tmp/seeded-wt), then the lead's confirmation
id=$1; prop=${id%%-*}
mkdir -p /var/tmp/seedrun/$id && cp /tmp/seed/seed-out-$id/patch.diff /var/tmp/seedrun/$id/ && echo "{\"property\":\"$prop\"}" > /var/tmp/seedrun/$id/meta.json
cd /verif
VERIF_JOBS=${VERIF_JOBS:-10} VERIF_NINJA_JOBS=${VERIF_NINJA_JOBS:-12} tools/run_seeded.sh /var/tmp/seedrun/$id > /var/tmp/seedrun/$id.log 2>&1
J=${J:-8} tools/confirm_seed.sh $id > /var/tmp/confirm_$id.out 2>&1
echo "== $id"; grep "VIOLATION\|seed=\|seeded " /var/tmp/seedrun/$id.log | cut -c1-220; tail -1 /var/tmp/confirm_$id.out
