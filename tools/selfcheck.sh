#!/bin/bash
# Emulates `vp check`: fresh clone of the committed /verif, fresh build root, setup_cmd, then every quick_cmd once;
# validates every evidence file against the schema.  usage: tools/selfcheck.sh [outdir]
out=${1:-/var/tmp/selfcheck}; rm -rf "$out"; mkdir -p "$out"
git clone -q /verif "$out/verif" || exit 2
cd "$out/verif"; export VERIF_BUILD_ROOT="$out/build"
( time ./check --setup ) > "$out/setup.log" 2>&1 || { echo "SETUP FAILED"; tail -5 "$out/setup.log"; exit 2; }
grep real "$out/setup.log"
python3 - "$out" <<'P'
import json,subprocess,sys,time,os
out=sys.argv[1]; m=json.load(open('MANIFEST.json'))
bad=0
for c in m['checks']:
    pid=c['property_id']; ev=c['evidence_file'].replace('/verif/',out+'/verif/')
    if os.path.exists(ev): os.remove(ev)
    t=time.time(); p=subprocess.run(c['quick_cmd'],shell=True,capture_output=True,text=True); dt=time.time()-t
    open('%s/%s.log'%(out,pid),'w').write(p.stdout+p.stderr)
    viol='VIOLATION' in p.stdout
    evok=os.path.exists(ev)
    msg=''
    if evok:
        r=subprocess.run(['/opt/veriftools/pyvenv/bin/python','-c','import json,jsonschema,sys; jsonschema.validate(json.load(open(sys.argv[1])),json.load(open("/root/.vp/EVIDENCE.schema.json")))',ev],capture_output=True,text=True)
        if r.returncode: evok=False; msg=r.stderr[-300:]
    status='ok' if (p.returncode==0 and not viol and evok) else 'BROKEN'
    if status!='ok': bad+=1
    print('%s rc=%d violation=%s evidence=%s %.0fs %s %s'%(pid,p.returncode,viol,evok,dt,status,msg),flush=True)
print('selfcheck: %d broken'%bad)
P
