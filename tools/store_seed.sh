#!/bin/bash
# usage: tools/store_seed.sh <ID> <check-exit> "<violation keys that caught it | MISSED>" "<lead's confirmation notes>"
set -eu
id=$1; rc=$2; keys=$3; notes=$4
src=/tmp/seed/seed-out-$id; dst=/verif/seeded/$id
mkdir -p $dst; cp $src/patch.diff $dst/; rm -rf $dst/demo; cp -r $src/demo $dst/demo; [ -f $src/confirm.log ] && grep -v "^\[" $src/confirm.log > $dst/lead_confirm.log || true
python3 - "$src/meta.json" "$dst/meta.json" "$rc" "$keys" "$notes" <<'P'
import json,sys
m=json.load(open(sys.argv[1]))
m["lead_confirmation"]=sys.argv[5]
m["our_check"]={"command":"tools/run_seeded.sh seeded/<id> quick (applies patch.diff in a scratch worktree, builds separate flavours, runs ./check %s)"%m["property"],
                "exit":int(sys.argv[3]),"caught_by_violation_keys":sys.argv[4]}
json.dump(m,open(sys.argv[2],"w"),indent=1)
P
echo stored $dst
