"""Build manager: per-flavour library builds of /repo's working tree + harness executables.

Build trees live in ${VERIF_BUILD_ROOT:-/var/tmp/stir-verif}/<flavour> (outside /repo, /verif, /tmp).
Every check calls ensure_flavour() first; ninja decides what is stale so edits under /repo are
always picked up.  One flock per flavour serialises concurrent checks.
"""
import fcntl
import glob
import hashlib
import os
import subprocess
import sys
import time

REPO = os.environ.get("VERIF_REPO", "/repo")
VERIF = os.path.dirname(os.path.dirname(os.path.abspath(__file__)))
BUILD_ROOT = os.environ.get("VERIF_BUILD_ROOT", "/var/tmp/stir-verif")
GUARD = "UCL_STIR_VERIF"

COMMON_CMAKE = [
    "-G", "Ninja", "-DCMAKE_BUILD_TYPE=None",
    "-DBUILD_EXECUTABLES=OFF", "-DBUILD_TESTING=OFF", "-DBUILD_DOCUMENTATION=OFF",
    "-DDISABLE_LLN_MATRIX=ON", "-DDISABLE_ITK=ON", "-DDISABLE_HDF5=ON", "-DDISABLE_CERN_ROOT=ON",
    "-DDISABLE_NiftyPET_PROJECTOR=ON", "-DDISABLE_Parallelproj_PROJECTOR=ON", "-DDISABLE_UPENN=ON",
    "-DDISABLE_STIR_CUDA=ON", "-DGRAPHICS=None", "-DBUILD_SWIG_PYTHON=OFF",
]

ASAN_FLAGS = ("-O1 -g1 -fno-omit-frame-pointer -fsanitize=address,undefined,fuzzer-no-link "
              "-fno-sanitize=function,object-size -fno-sanitize-recover=all")
TSAN_FLAGS = "-O1 -g1 -fno-omit-frame-pointer -fsanitize=thread -fopenmp"

FLAVOURS = {
    # name: (cxx, cc, cxxflags, extra cmake, harness link flags)
    "asan": dict(cxx="clang++-14", cc="clang-14",
                 cxxflags=ASAN_FLAGS + " -D%s -w" % GUARD,
                 cmake=["-DSTIR_OPENMP=OFF"],
                 hflags=ASAN_FLAGS.replace(",fuzzer-no-link", "") + " -D%s -w" % GUARD,
                 ldflags=""),
    "tsan": dict(cxx="clang++-14", cc="clang-14",
                 cxxflags=TSAN_FLAGS + " -D%s -w" % GUARD,
                 cmake=["-DSTIR_OPENMP=ON"],
                 hflags=TSAN_FLAGS + " -D%s -DSTIR_OPENMP -w" % GUARD,
                 ldflags="-fopenmp -latomic"),
    "rel": dict(cxx="g++", cc="gcc",
                cxxflags="-O2 -g1 -DNDEBUG -D%s -w" % GUARD,
                cmake=["-DSTIR_OPENMP=OFF"],
                hflags="-O2 -g1 -DNDEBUG -D%s -w" % GUARD,
                ldflags=""),
}


def log(msg):
    sys.stderr.write("[verif-build] %s\n" % msg)
    sys.stderr.flush()


class BuildError(Exception):
    pass


def tree(flavour):
    return os.path.join(BUILD_ROOT, flavour)


class _Lock:
    def __init__(self, name):
        os.makedirs(BUILD_ROOT, exist_ok=True)
        self.path = os.path.join(BUILD_ROOT, ".%s.lock" % name)

    def __enter__(self):
        self.f = open(self.path, "w")
        fcntl.flock(self.f, fcntl.LOCK_EX)
        return self

    def __exit__(self, *a):
        fcntl.flock(self.f, fcntl.LOCK_UN)
        self.f.close()


def _run(cmd, logfile, cwd=None, env=None):
    with open(logfile, "ab") as lf:
        lf.write(("\n$ %s\n" % " ".join(cmd)).encode())
        lf.flush()
        p = subprocess.run(cmd, stdout=lf, stderr=subprocess.STDOUT, cwd=cwd, env=env, stdin=subprocess.DEVNULL)
    return p.returncode


def ensure_flavour(flavour):
    """Configure (if needed) and build the STIR static libraries for this flavour from /repo's working tree."""
    cfg = FLAVOURS[flavour]
    t = tree(flavour)
    with _Lock(flavour):
        os.makedirs(t, exist_ok=True)
        logfile = os.path.join(t, "verif-build.log")
        stamp = os.path.join(t, ".verif-config")
        want = "%s|%s|%s|%s" % (cfg["cxx"], cfg["cxxflags"], " ".join(cfg["cmake"]), REPO)
        have = open(stamp).read() if os.path.exists(stamp) else ""
        if have != want or not os.path.exists(os.path.join(t, "build.ninja")):
            log("configuring %s" % flavour)
            if os.path.exists(os.path.join(t, "CMakeCache.txt")):
                os.remove(os.path.join(t, "CMakeCache.txt"))
            cmd = ["cmake", "-S", REPO, "-B", t] + COMMON_CMAKE + cfg["cmake"] + [
                "-DCMAKE_CXX_COMPILER=" + cfg["cxx"], "-DCMAKE_C_COMPILER=" + cfg["cc"],
                "-DCMAKE_CXX_FLAGS=" + cfg["cxxflags"]]
            if _run(cmd, logfile) != 0:
                raise BuildError("cmake configure failed for %s, see %s" % (flavour, logfile))
            with open(stamp, "w") as f:
                f.write(want)
        t0 = time.time()
        rc = _run(["ninja", "-C", t] + (["-j", os.environ["VERIF_NINJA_JOBS"]] if os.environ.get("VERIF_NINJA_JOBS") else []), logfile)
        if rc != 0:
            raise BuildError("ninja failed for %s, see %s" % (flavour, logfile))
        dt = time.time() - t0
        if dt > 5:
            log("built %s in %.0fs" % (flavour, dt))
    return t


def _libs(flavour):
    t = tree(flavour)
    libs = sorted(glob.glob(os.path.join(t, "src", "**", "lib*.a"), recursive=True))
    regs = sorted(glob.glob(os.path.join(t, "src", "CMakeFiles", "stir_registries.dir", "**", "*.o"), recursive=True))
    return libs, regs


def _newest(paths):
    m = 0.0
    for p in paths:
        try:
            m = max(m, os.path.getmtime(p))
        except OSError:
            pass
    return m


def ensure_harness(flavour, name, extra_flags="", extra_ld=""):
    """Compile harness/<name>.cxx for this flavour; returns path of the executable."""
    cfg = FLAVOURS[flavour]
    t = ensure_flavour(flavour)
    src = os.path.join(VERIF, "harness", name + ".cxx")
    if not os.path.exists(src):
        raise BuildError("no harness source %s" % src)
    hdrs = glob.glob(os.path.join(VERIF, "harness", "common", "*.h"))
    libs, regs = _libs(flavour)
    if not libs or not regs:
        raise BuildError("no libraries found in %s" % t)
    outdir = os.path.join(t, "harness")
    os.makedirs(outdir, exist_ok=True)
    exe = os.path.join(outdir, name)
    with _Lock(flavour + "." + name):
        flagsig = hashlib.sha1((cfg["hflags"] + extra_flags + extra_ld).encode()).hexdigest()
        sigfile = exe + ".sig"
        oldsig = open(sigfile).read() if os.path.exists(sigfile) else ""
        if (os.path.exists(exe) and oldsig == flagsig
                and os.path.getmtime(exe) >= _newest([src] + hdrs + libs + regs)):
            return exe
        cmd = [cfg["cxx"], "-std=gnu++17"] + cfg["hflags"].split() + extra_flags.split() + [
            "-I", os.path.join(REPO, "src", "include"), "-I", os.path.join(t, "src", "include"),
            "-I", os.path.join(VERIF, "harness"),
            src, "-o", exe + ".tmp"] + regs + ["-Wl,--start-group"] + libs + ["-Wl,--end-group"] + \
            cfg["ldflags"].split() + extra_ld.split() + ["-lpthread", "-ldl"]
        logfile = os.path.join(outdir, name + ".log")
        if os.path.exists(logfile):
            os.remove(logfile)
        t0 = time.time()
        if _run(cmd, logfile) != 0:
            tail = open(logfile, errors="replace").read()[-3000:]
            raise BuildError("harness %s (%s) failed to compile:\n%s" % (name, flavour, tail))
        os.replace(exe + ".tmp", exe)
        with open(sigfile, "w") as f:
            f.write(flagsig)
        log("compiled %s [%s] in %.0fs" % (name, flavour, time.time() - t0))
    return exe
