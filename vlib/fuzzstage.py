"""Pre-steps of stages that judge a directory of inputs (C17 mode "corpus").

corpus_dir(st)                    quick tier: the committed corpus /verif/fuzz/c17_corpus (deterministic replay)
libfuzzer(st, seed, wd, jobs)     thorough tier: coverage-guided libFuzzer campaign (clang -fsanitize=fuzzer on the asan flavour, whose
                                  libraries carry fuzzer-no-link coverage instrumentation) started from the committed corpus + the
                                  harness' own seeds, bounded by a number of runs; returns the directory of everything NEW it produced
                                  (corpus additions and crash/oom/timeout artifacts).  libFuzzer only generates; the verdict on each
                                  file is the harness' isolated-child oracle, so known findings, keys and replays work as for mutations.
"""
import glob
import os
import re
import shutil
import subprocess
import time

from . import build

VERIF = build.VERIF
COMMITTED = os.path.join(VERIF, "fuzz", "c17_corpus")


def log(msg):
    print("[verif-fuzz] " + msg, flush=True)


def corpus_dir(st):
    # VERIF_C17_CORPUS_DIR: development aid (judge another directory, e.g. everything a campaign found, before committing a corpus)
    d = os.environ.get("VERIF_C17_CORPUS_DIR") or st.get("corpus", COMMITTED)
    n = len([f for f in os.listdir(d) if not f.startswith(".")]) if os.path.isdir(d) else 0
    return d, n, {"fuzz_committed_corpus_files": n}


def libfuzzer(st, seed, wd, jobs):
    exe = build.ensure_harness("asan", "c17_fuzz", "-fsanitize=fuzzer", "")
    corpus = os.path.join(wd, "fz", "corpus")
    art = os.path.join(wd, "fz", "art") + os.sep
    tmp = os.path.join(wd, "fz", "tmp")
    new = os.path.join(wd, "fz", "new")
    for d in (corpus, art, tmp, new):
        os.makedirs(d, exist_ok=True)
    committed = set()
    if os.path.isdir(COMMITTED):
        for f in os.listdir(COMMITTED):
            if not f.startswith("."):
                shutil.copy(os.path.join(COMMITTED, f), os.path.join(corpus, f))
                committed.add(f)
    env = dict(os.environ)
    env["STIR_CONFIG_DIR"] = os.path.join(build.REPO, "src", "config")
    env["VERIF_C17_FUZZ_TMP"] = tmp
    env["TMPDIR"] = tmp
    env["ASAN_OPTIONS"] = ("detect_leaks=0:allocator_may_return_null=1:max_allocation_size_mb=2048:detect_stack_use_after_return=0:"
                           "handle_abort=1:quarantine_size_mb=8")
    env["UBSAN_OPTIONS"] = "print_stacktrace=0"
    exp = dict(env)
    exp["VERIF_C17_FUZZ_EXPORT"] = corpus
    flog = os.path.join(wd, "fz", "libfuzzer.log")
    with open(flog, "wb") as lf:
        subprocess.run([exe, "-runs=0", corpus], env=exp, stdin=subprocess.DEVNULL, stdout=lf, stderr=subprocess.STDOUT, cwd=tmp,
                       timeout=600)
    seeds_exported = set(os.listdir(corpus)) - committed
    dictf = os.path.join(wd, "fz", "dict.txt")
    runs = int(st.get("fuzz_runs", 100000))
    fj = max(1, min(jobs, int(st.get("fuzz_jobs", jobs))))
    budget = int(st.get("fuzz_max_seconds", 3600))
    cmd = [exe, corpus, "-fork=%d" % fj, "-ignore_crashes=1", "-ignore_ooms=1", "-ignore_timeouts=1", "-runs=%d" % runs,
           "-seed=%d" % (seed % (2 ** 31) or 1), "-max_len=8192", "-timeout=25", "-rss_limit_mb=4096", "-malloc_limit_mb=2048",
           "-artifact_prefix=" + art, "-max_total_time=%d" % budget, "-print_final_stats=1", "-reduce_inputs=1"]
    if os.path.exists(dictf):
        cmd.append("-dict=" + dictf)
    t0 = time.time()
    with open(flog, "ab") as lf:
        try:
            subprocess.run(cmd, env=env, stdin=subprocess.DEVNULL, stdout=lf, stderr=subprocess.STDOUT, cwd=tmp, timeout=budget + 600)
        except subprocess.TimeoutExpired:
            log("libFuzzer did not stop within its budget + 600 s; judging what it had produced")
    text = open(flog, errors="replace").read()
    cov = [int(m) for m in re.findall(r"cov: (\d+)", text)]
    ft = [int(m) for m in re.findall(r"ft: (\d+)", text)]
    execs = [int(m) for m in re.findall(r"^#(\d+):? ", text, re.M)] + [int(m) for m in re.findall(r"^#(\d+)\s", text, re.M)]
    n_new = 0
    for f in sorted(os.listdir(corpus)):
        if f in committed or f in seeds_exported:
            continue
        shutil.copy(os.path.join(corpus, f), os.path.join(new, f))
        n_new += 1
    n_art = 0
    for f in sorted(glob.glob(art + "*")):
        if os.path.isfile(f):
            shutil.copy(f, os.path.join(new, os.path.basename(f)))
            n_art += 1
    # the exported seeds themselves are judged too (they are what the campaign started from)
    for f in sorted(seeds_exported):
        shutil.copy(os.path.join(corpus, f), os.path.join(new, f))
    stats = {"fuzz_libfuzzer_executions": max(execs) if execs else 0, "fuzz_edge_coverage_reached": max(cov) if cov else 0,
             "fuzz_features_reached": max(ft) if ft else 0, "fuzz_new_corpus_inputs": n_new, "fuzz_artifacts": n_art,
             "fuzz_seed_inputs": len(seeds_exported), "fuzz_committed_corpus_files": len(committed),
             "fuzz_wall_seconds": int(time.time() - t0), "fuzz_jobs": fj}
    log("libFuzzer: %s" % stats)
    keep = st.get("keep_new")
    if keep:
        os.makedirs(keep, exist_ok=True)
        for f in os.listdir(new):
            shutil.copy(os.path.join(new, f), os.path.join(keep, f))
    shutil.rmtree(tmp, ignore_errors=True)
    n = len(os.listdir(new))
    return new, n, stats
