#!/usr/bin/env python3
"""Regenerates MANIFEST.json from vlib/props.py (so that the manifest never lists a check that does not exist)."""
import json
import os
import sys

sys.path.insert(0, os.path.dirname(os.path.dirname(os.path.abspath(__file__))))
from vlib import props  # noqa: E402

props.load()

VERIF = os.path.dirname(os.path.dirname(os.path.abspath(__file__)))


def main():
    allp = [json.loads(l) for l in open(os.path.join(VERIF, "properties.jsonl"))]
    hooks_commits = []
    hc = os.path.join(VERIF, "hooks_commits.txt")
    if os.path.exists(hc):
        hooks_commits = [l.split()[0] for l in open(hc) if l.strip() and not l.startswith("#")]
    checks = []
    na = []
    for p in allp:
        pid = p["id"]
        cfg = props.PROPS.get(pid)
        if not cfg or cfg.get("disabled"):
            na.append(dict(property_id=pid, reason=(cfg or {}).get("disabled", "runtime monitor not built yet in this round (planned, DESIGN.md section 6)")))
            continue
        checks.append(dict(
            property_id=pid,
            quick_cmd="./check %s --tier quick" % pid,
            thorough_cmd="./check %s --tier thorough" % pid,
            evidence_file="/verif/evidence/%s.json" % pid,
            replay_cmd_template="./check %s --replay {path}" % pid,
            engine="runtime-monitor",
            level_claimed=dict(category=cfg.get("level", "exploration"), text=cfg["level_text"], design_ref="DESIGN.md §6 " + pid),
            level_note=cfg["level_note"],
            technique=cfg["technique"],
        ))
    m = dict(
        version=1,
        setup_cmd="./check --setup",
        hooks=dict(
            guard="UCL_STIR_VERIF",
            enable="every flavour is configured by vlib/build.py with -DUCL_STIR_VERIF in CMAKE_CXX_FLAGS (library-only cmake+ninja builds of "
                   "/repo's working tree under ${VERIF_BUILD_ROOT:-/var/tmp/stir-verif}/{asan,tsan,rel}); harnesses define the weak "
                   "call-out stir_verif_point()",
            baseline_off_cmd="cmake --build /repo/_build -j16 && ctest --test-dir /repo/_build -j8 --timeout 900",
            source_commits=hooks_commits,
            add_only=True,
        ),
        engines=[dict(name="runtime-monitor", path="/verif/check",
                      serves_properties=[c["property_id"] for c in checks],
                      kind_free_text="python driver + one C++ monitor harness per property linked against sanitizer builds "
                                     "(clang ASan+UBSan with asserts, clang TSan+OpenMP/Archer, g++ -O2 optionally under valgrind "
                                     "memcheck) of the real STIR libraries; reference models / inverse relations / event-log checkers "
                                     "as oracles; seeded case generators; known-findings matching")],
        checks=checks,
        not_applicable=na,
        notes="Technique family: runtime monitoring and sanitizers.  See DESIGN.md.  known_findings.json lists genuine defects "
              "(fixed: entries suppress nothing).  VERIF_SEED / VERIF_TIER / VERIF_JOBS are honoured.",
    )
    with open(os.path.join(VERIF, "MANIFEST.json"), "w") as f:
        json.dump(m, f, indent=1)
    from vlib import validate
    err = validate.validate(m, "/root/.vp/MANIFEST.schema.json")
    if err:
        print("MANIFEST.json INVALID: " + err)
        sys.exit(1)
    print("MANIFEST.json valid: %d checks, %d not_applicable" % (len(checks), len(na)))


if __name__ == "__main__":
    main()
