from vlib.props import prop

prop("C01",
     harness="c01_detpairs",
     runs={
         "quick": [dict(flavour="asan", cases=600), dict(flavour="rel", cases=3000)],
         "thorough": [dict(flavour="asan", cases=1500), dict(flavour="rel", cases=12000)],
     },
     min_nontrivial={"quick": 1500, "thorough": 5000},
     min_obs={"quick": {"cfg_axial_compression": 50, "cfg_view_mashing": 50, "cfg_tof": 10, "cfg_tof_mashed": 5, "cfg_even_span": 20,
                        "inverse_roundtrips": 1000, "ring_pairs_checked": 1000,
                        "cfg_more_negative_segments": 50, "cfg_more_positive_segments": 50,
                        "cfg_tables_first_used_with_another_view_mashing": 200},
              "thorough": {"cfg_axial_compression": 1000, "cfg_tof_mashed": 100}},
     rule=("case = one generated (scanner, sampling) configuration: even detector count, 1..5/8 rings, span (odd and even), max ring "
           "difference, view mashing, TOF mashing (odd), tangential/segment truncation (symmetric and asymmetric segment ranges), mixed-span GE layout, cylindrical and "
           "blocks-on-cylindrical; thorough adds predefined scanners.  Per configuration ALL ordered detector pairs x ring pairs x "
           "unmashed TOF indices are swept (factorised for >6e6 combinations).  non-trivial = at least one bin has contributors and at "
           "least one pair is assigned; distinct = distinct configuration descriptor"),
     technique="runtime monitoring: exhaustive per-configuration sweep of the real pair<->bin maps checked against the partition/inverse relations, under ASan/UBSan/asserts",
     level_text=("for each of hundreds (quick) / thousands (thorough) of generated geometries the forward map is evaluated on every "
                 "ordered detector pair x ring pair x TOF index, its inverse image is built, and every bin's reported contributor list, "
                 "count, the uncompressed bin<->pair inverses, the swap/TOF-negation rule and the ring-pair partition are compared "
                 "exactly (integers); the asan flavour re-arms STIR's table-index asserts"),
     level_note="trusted: the comparison code in harness/c01_detpairs.cxx; user-defined geometries outside the generated family and ProjDataInfoGeneric crystal maps are not covered",
     assumptions=["TOF mashing factors are restricted to odd values (even ones are documented as unsupported by get_all_det_pos_pairs_for_bin)"],
     )
