from vlib.props import prop

prop("C02",
     harness="c02_projdata",
     runs={
         "quick": [dict(flavour="asan", cases=1500), dict(flavour="rel", cases=6000), dict(flavour="rel", cases=3000, mode="oor")],
         "thorough": [dict(flavour="asan", cases=8000), dict(flavour="rel", cases=40000), dict(flavour="rel", cases=20000, mode="oor"),
                      dict(flavour="memcheck", cases=300, mode="oor")],
     },
     min_nontrivial={"quick": 4000, "thorough": 20000},
     min_obs={"quick": {"cases_memory": 100, "cases_stringstream": 100, "cases_fstream": 100, "cases_interfile": 100,
                        "cases_permuted_segment_sequence": 100, "cases_tof": 50, "cases_integer_on_disk": 100,
                        "independent_reader_checks": 2000, "out_of_range_requests": 500, "writes_bin": 500,
                        "writes_related_viewgrams": 500, "interfile_roundtrips": 50,
                        "cfg_asymmetric_segment_range": 150, "cfg_symmetric_reduced_segment_range": 300,
                        "writes_fill_from_larger_source_in_memory": 300, "writes_fill_from_larger_source_on_file": 200},
              "thorough": {"independent_reader_checks": 50000, "out_of_range_requests": 10000}},
     rule=("case = one random history (8..40/120 operations) on one generated geometry (unequal axial counts per segment, reduced segment ranges - asymmetric ones such as -2..1 for data in memory -, fill(ProjData) also from in-memory or file sources with MORE segments, TOF and "
           "non-TOF, arc-corrected or not) x backing store (ProjDataInMemory / ProjDataFromStream on a stringstream / on an fstream / "
           "ProjDataInterfile) x storage order x random permutation of the segment sequence x on-disk type (float, short, ushort, int, "
           "schar; with scale factor) x byte order x stream offset.  Every operation writes unique values through one access path "
           "(bin, sinogram, viewgram, segment by view / by sinogram, related viewgrams with trivial or PET symmetries, fill(value), "
           "fill(ProjData), iterator+arithmetic); after every operation the WHOLE array is read through another randomly chosen path and "
           "compared with the reference map, every 8th step through all paths; for files an independent reader re-opens the file after "
           "each call and decodes every bin with an independent offset formula; mode 'oor' (release flags) mixes in out-of-range "
           "requests that must be reported and leave everything unchanged.  non-trivial = >= 8 bins and >= 8 steps; distinct = distinct "
           "case descriptor"),
     technique="runtime monitoring: operation histories checked against an executable reference map, independent file reader after each write, under ASan/UBSan/asserts and memcheck",
     level_text=("thousands of random write/read histories across all access paths and storage layouts are executed against the real "
                 "classes with a dense reference map as oracle (unique values make every read identify the write it observed); the "
                 "file-visibility clause is observed by a second reader opened after every write call while the writer stays open; "
                 "out-of-range requests are issued in the build users run (asserts off) and under memcheck"),
     level_note=("trusted: the reference map and the independent offset formula in harness/c02_projdata.cxx; ECAT/GE-HDF5 back ends are "
                 "not built; values are chosen exactly representable in the on-disk type so equality is exact"),
     assumptions=["data sets are small (<= 6000 bins) so that the whole array can be compared after every step"],
     )
