from vlib.props import prop

_SYMOPS = ["trivial", "z_shift", "swap_zq", "swap_xmx", "swap_xmx_zq", "swap_ymy", "swap_ymy_zq", "swap_xmx_ymy", "swap_xmx_ymy_zq",
           "swap_xy_yx", "swap_xy_yx_zq", "swap_xmy_yx", "swap_xmy_yx_zq", "swap_xy_ymx", "swap_xy_ymx_zq", "swap_xmy_ymx",
           "swap_xmy_ymx_zq"]

_min_obs_quick = {
    "rows_compared": 2000000, "rows_via_symmetry": 800000, "rows_nonempty": 800000,
    "bins_screened_as_ties": 1000, "repeated_requests": 200000,
    "cache_hit_full_row": 50000, "cache_hit_basic_row": 50000, "cache_hit_basic_row_then_transformed": 200000, "cache_miss": 200000,
    "requests_with_cache_disabled": 200000,
    # the same cache events counted inside STIR (weak hook at the lookup / insert / clear sites of ProjMatrixByBin)
    "hook_pmcache_lookup_hit": 300000, "hook_pmcache_lookup_miss": 300000, "hook_pmcache_inserted": 200000, "hook_pmcache_cleared": 5000,
    "clear_cache_events": 2000, "re_setups": 5000, "re_setups_same_arguments": 1000, "re_setups_back_to_first_geometry": 2000,
    "re_setups_with_other_symmetry_switches": 500,
    "re_setup_same-data-same-voxels-other-image-size": 500, "re_setup_same-data-other-voxel-size-or-origin": 500,
    "re_setup_other-data-same-scanner": 500, "re_setup_other-scanner": 500,
    "cfg_cache_disabled": 500, "cfg_cache_disabled_allbins_path": 500, "cfg_cache_basic_bins_only": 1000, "cfg_cache_all_bins": 1000,
    "cfg_tangential_rays_1": 1000, "cfg_tangential_rays_2": 1000, "cfg_tangential_rays_3": 1000,
    "cfg_square_fov": 500, "cfg_tof": 300, "cfg_axial_compression": 1000, "cfg_view_mashing": 300,
    "cfg_z_voxel_ring_spacing_over_1": 500, "cfg_z_voxel_ring_spacing_over_2": 1000, "cfg_z_voxel_ring_spacing_over_4": 300,
    "cfg_shifted_z_origin": 1000, "cfg_anisotropic_xy": 1000, "cfg_even_xy_size": 1000,
}
_min_obs_quick.update({"symop_" + n: 1000 for n in _SYMOPS})
_min_obs_quick.update({"cfg_sym_%02d" % b: 100 for b in range(32)})

prop("C03",
     harness="c03_projmatrix",
     runs={
         "quick": [dict(flavour="asan", cases=2000), dict(flavour="rel", cases=16000)],
         "thorough": [dict(flavour="asan", cases=15000), dict(flavour="rel", cases=240000)],
     },
     min_nontrivial={"quick": 5000, "thorough": 80000},
     min_obs={"quick": _min_obs_quick,
              "thorough": {k: 8 * v for k, v in _min_obs_quick.items()}},
     rule=("case = one generated configuration: small cylindrical scanner (8..40/64 detectors, 1..5/6 rings, optional TOF / intrinsic "
           "tilt) x non-arc-corrected sampling (span odd/even/mixed, max ring difference, view mashing, truncated tangential and "
           "segment range) x image grid (3..13 voxels in x and y, odd and even, square and anisotropic, z voxel = ring spacing/{1,2,4} "
           "as far as every segment's axial sampling is a multiple of it, 1..n planes from any first index, z-origin shifted by whole "
           "planes) x one of the 2^5 symmetry switch settings (stratified over the case index) x cache {disabled via either code "
           "path, basic bins only, all bins} x 1..3 tangential rays x cylindrical/square FOV.  History per case: ALL bins that pass "
           "the geometric tie screen are requested once in random order, interleaved with repeats of earlier bins (25% chain), 1-3 "
           "clear_cache calls and a set_up with the same arguments; then (80%) the same object is set up for another geometry (same "
           "data + image of another size with the same voxels / other voxel size or origin / other sampling of the same scanner / "
           "other scanner), up to 2500/6000 of its bins are checked against a second reference, and it is set up again for the first "
           "geometry (30%: with other symmetry switches) and re-checked.  Every returned row is compared with the row of a separate "
           "matrix object with all symmetries off and cache disabled.  non-trivial = at least one symmetry switch on, >= 200 rows "
           "compared and >= 50 of them obtained by transforming another bin's row; distinct = distinct configuration descriptor"),
     technique=("runtime monitoring: request histories on the real ProjMatrixByBinUsingRayTracing checked row by row against an "
                "independent, state-free instance of the same class (symmetries off, no cache), under ASan/UBSan/asserts and at -O2"),
     level_text=("for thousands of generated geometry x grid x symmetry x cache configurations every bin of the geometry is requested "
                 "(random order, repeats, clear_cache, repeated and changed set_up) and every returned row is compared element-wise by "
                 "voxel (band 2e-3 of the row maximum, elements below the band may be absent, planes outside the image dropped as "
                 "forward/back projection do) with the directly computed row; per row also: values >= 0 and finite, no voxel twice, "
                 "x/y inside the image, row labelled with the requested bin.  Counters prove that all 17 symmetry-operation classes, "
                 "cache hits of full rows, of basic rows that are then transformed, misses, clears and every re-set_up variant "
                 "occurred.  Detection validated on planted mutations (wrong sign in a symmetry operation, overlapping cache_key "
                 "fields, cache not cleared by set_up, transform_z off by one)"),
     level_note=("trusted: the row comparison and the geometric tie screen in harness/c03_projmatrix.cxx, and the directly computed "
                 "row as reference (an error common to the direct and the symmetry-derived computation is invisible; that is C04/C05 "
                 "territory).  Bins whose ray end points lie within 1e-3 voxel of a voxel face, or whose ray passes within 1e-3 "
                 "voxel of a grid edge, are excluded (counted as bins_screened_as_ties, about 3%), so an error that affects only such "
                 "ties is invisible.  ProjMatrixByBinUsingInterpolation ('preliminary code', no symmetry setters), "
                 "use_actual_detector_boundaries, arc-corrected and blocks/generic geometries are not exercised"),
     assumptions=["scanner radius 40..150 mm and ring spacing >= 3 mm keep tan(theta) of oblique segments >= 0.009 so that float32 "
                  "rounding of a ray's z position, amplified by 1/tan(theta), stays two orders of magnitude below the comparison band",
                  "x and y voxel sizes are either identical or differ by >= 5% (DataSymmetriesForBins_PET_CartesianGrid deliberately "
                  "treats grids with |vx-vy| <= 2e-3 mm as square) and an intrinsic tilt is either 0 or >= 0.01 rad (below 1e-4 rad the "
                  "library keeps the rotational symmetries)",
                  "x/y image origin is 0 (ProjMatrixByBinUsingRayTracing::set_up rejects anything else) and the z-origin is a whole "
                  "number of planes (DataSymmetriesForBins_PET_CartesianGrid rejects anything else)",
                  "the 'other geometry' of a re-set_up differs from the first by more than the 0.05 mm / 0.05 rad tolerances that "
                  "ProjDataInfo::operator== and Scanner::operator== treat as equal, or only in the image"],
     )
