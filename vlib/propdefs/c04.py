from vlib.props import prop

prop("C04",
     harness="c04_projectors",
     runs={
         "quick": [dict(flavour="asan", cases=28, mode="small"), dict(flavour="rel", cases=150)],
         "thorough": [dict(flavour="asan", cases=280, mode="small"), dict(flavour="rel", cases=4000)],
     },
     min_nontrivial={"quick": 80, "thorough": 2000},
     min_obs={"quick": {"adjoint_checks": 1000}, "thorough": {"adjoint_checks": 30000}},
     rule="tbd",
     technique="runtime monitoring",
     level_text="tbd",
     level_note="tbd",
     assumptions=[],
     )
