from vlib.props import prop

prop("C04",
     harness="c04_projectors",
     runs={
         # mode=small / quicksize: same generator with smaller geometries so that the sanitizer build sees many configurations
         "quick": [dict(flavour="asan", cases=280, mode="small"), dict(flavour="asan", cases=28, mode="quicksize"),
                   dict(flavour="rel", cases=2000)],
         "thorough": [dict(flavour="asan", cases=4000, mode="small"), dict(flavour="asan", cases=420, mode="quicksize"),
                      dict(flavour="rel", cases=20000), dict(flavour="memcheck", cases=140, mode="small")],
     },
     min_nontrivial={"quick": 1500, "thorough": 15000},
     min_obs={"quick": {"adjoint_checks": 30000, "adjoint_checks_whole_data": 1500, "subsets_checked": 10000,
                        "related_viewgram_groups": 10000, "sub_range_tiles": 5000, "sentinel_bins_checked": 1000000,
                        "raytracing_sub_range_tiles": 300, "raytracing_sub_range_tiles_at_negative_s_only": 60,
                        "homogeneity_checks": 1500, "homogeneity_checks_small_units": 600,
                        "zeroed_bins_checked": 100000, "accumulation_checks": 1500, "fwd_raytracing_vs_matrix_bins": 100000,
                        "cfg_raytracing_projector_unequal_xy_views_multiple_of_4": 30,
                        "cfg_raytracing_projector_unequal_xy_views_multiple_of_4_oblique": 15,
                        "cfg_raytracing_projector_two_planes_per_axial_pos_shifted_origin": 30,
                        "cfg_tof": 40, "cfg_non_tof": 1000, "cfg_blocks_on_cylindrical": 40, "cfg_interpolation_matrix": 80,
                        "cfg_max_group_size_8": 60, "cfg_cache_off": 200, "cfg_cache_all_bins": 100, "cfg_cache_basic_bins": 100,
                        "cfg_multiple_tangential_rays": 200, "cfg_no_symmetries": 50, "cfg_axial_compression": 200},
              "thorough": {"adjoint_checks": 400000, "subsets_checked": 150000, "related_viewgram_groups": 150000,
                           "sentinel_bins_checked": 20000000, "fwd_raytracing_vs_matrix_bins": 2000000, "cfg_tof": 500,
                           "cfg_blocks_on_cylindrical": 500, "cfg_interpolation_matrix": 1000, "cfg_max_group_size_8": 800}},
     rule=("case = one generated configuration: scanner (8..40/64 detectors, 1..4/6 rings, cylindrical or blocks-on-cylindrical[span 1], "
           "optional intrinsic tilt, TOF with odd mashing) x sampling (span odd/even/mixed, max ring difference, view mashing, tangential "
           "and segment truncation, arc-corrected or not) x image grid (3..21/33 voxels, odd/even, nx!=ny, vx!=vy, z spacing = axial "
           "sampling/k, shifted z origin and first plane index) x matrix (ray tracing with the 2^5 symmetry switches, 1..3 tangential rays, "
           "cylindrical/square FOV, actual detector boundaries; or interpolation with symmetry switches, piecewise-linear, exact Jacobian) x "
           "cache (off / basic bins / all bins) x pairing (ProjectorByBinPairUsingProjMatrixByBin, shared matrix, separate matrices).  In "
           "each case: whole data, every subset of 4..8 sampled num_subsets values (always 1, often num_views, sometimes num_views+1), ALL "
           "related-viewgram groups x TOF bins, random axial x tangential tilings of 4..8 groups, accumulation, and (40% of cases, inside "
           "the on-the-fly projector's documented/asserted domain) ForwardProjectorByBinUsingRayTracing.  sub-evaluation = one "
           "related-viewgram group (forward, back, adjoint).  non-trivial = the matrix has non-zero rows, >= 2 views and <Ax,y> != 0; "
           "distinct = distinct configuration descriptor / distinct (case, group)"),
     technique=("runtime monitoring: metamorphic relations (adjoint, linear, additive over subsets / symmetry groups / sub-ranges, sentinel "
                "bins, accumulation) between float32 results of the real projectors, each with an acceptance band computed from a float64 "
                "application of the rows of an identically configured matrix object; under ASan/UBSan/asserts, -O2 -DNDEBUG and memcheck"),
     level_text=("thousands of generated geometry x grid x matrix x cache configurations are pushed through the real "
                 "Forward/BackProjectorByBinUsingProjMatrixByBin (ray-tracing and interpolation matrices) with random SIGNED images and "
                 "data: <Ax,y> and <x,A'y> accumulated in double agree within 8(n+2)eps*sum|terms| for the whole data, every subset, every "
                 "related-viewgram group and random axial/tangential sub-ranges; A(ax+bz)=aAx+bAz and the same for A' (inputs chosen so "
                 "that ax+bz is exact); subset / group / sub-range forward projections reproduce the whole-data projection bin for bin "
                 "(bit-exact, counted if only within the band) while all other bins keep a sentinel (or are 0 with zero=true); subset / "
                 "group / tile back projections add up to the whole; back projections accumulate after "
                 "start_accumulating_in_new_target; every forward bin and back-projected voxel also equals the float64 row application; "
                 "ForwardProjectorByBinUsingRayTracing equals forward projection through ProjMatrixByBinUsingRayTracing (default settings) "
                 "within 2e-3 of the viewgram maximum outside geometrically screened tie bins"),
     level_note=("trusted: the 150-line float64 reference (CSR of ProjMatrixByBin::get_proj_matrix_elems_for_one_bin of a second, cache-less "
                 "matrix object) and the comparison code in harness/c04_projectors.cxx.  A defect shared by the matrix rows and both "
                 "projectors is C03's subject and invisible here.  Not covered: unmatched pairs, ProjDataInfoGeneric, shifted x/y image "
                 "origin (rejected by the matrix), OpenMP builds (C18), predefined full-size scanners"),
     assumptions=["band: a float32 sum of n products differs from the exact sum by at most 8(n+2)*2^-23*sum|terms| (DESIGN.md §5); inner "
                  "products are accumulated in double from the float32 projector outputs",
                  "images/data are multiples of 1/64 in [-10,10] and the linear-combination coefficients small dyadic numbers, so the "
                  "combined inputs are exact in float32",
                  "the on-the-fly ray tracing projector is only exercised where its code asserts/documents support: cylindrical non-TOF "
                  "data, no view offset, even number of views, z voxel size = ring spacing/2, first plane index 0, square odd-sized x/y "
                  "grid, x/y voxel size >= tangential sampling, direct-plane rays through plane centres; (view, tangential position) "
                  "pairs whose line passes within 1e-3 voxel of a grid vertex are excluded from that comparison (counted)",
                  "arc-corrected tangential ranges are kept inside the detector ring (|s| < 0.97 R), otherwise tan(theta) is undefined",
                  "subset membership follows the documented rule of detail::find_basic_vs_nums_in_subset (re-implemented in the harness): "
                  "basic view/segments with view = min_view+subset_num (mod num_subsets) plus all their symmetry-related viewgrams"],
     )
