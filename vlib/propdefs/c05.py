import os

from vlib.props import prop

_KINDS = {"cfg_tof": 1, "cfg_nontof": 1, "cfg_additive": 1, "cfg_no_additive": 1, "cfg_norm_trivial": 1, "cfg_norm_projdata": 1,
          "cfg_norm_chained": 1, "cfg_subsets_gt1": 1, "cfg_zero_seg0_end_planes": 1, "cfg_max_segment_reduced": 1,
          "cfg_no_subset_sensitivities": 1, "cfg_sensitivity_supplied": 1, "cfg_prior": 1}


# re-configuration histories (every second case, not in the memcheck 'orders' mode): counters per 100 histories run
_SETTINGS = ["use_subset_sensitivities", "num_subsets", "zero_seg0_end_planes", "max_segment_num_to_process", "additive_proj_data",
             "normalisation", "proj_data", "sensitivity_source", "prior", "projector_pair"]
_HIST = {"history_runs": 100, "history_completed": 90, "history_re_set_ups": 180, "history_intermediate_requests": 650,
         "history_redundant_setter_calls": 150, "history_steps_reading_other_sensitivities": 70,
         "history_values_compared_with_reference": 150000, "history_values_compared_bitwise_with_fresh_object": 150000}
_HIST.update({"history_change_" + k: 15 for k in _SETTINGS})        # setting differs between two consecutive set_up()s
_HIST.update({"history_last_change_" + k: 6 for k in _SETTINGS})    # ... between the last two (the verified configuration)


def _scaled(f, extra, hist=0):
    d = {k: max(1, int(v * f)) for k, v in _KINDS.items()}
    d.update({k: max(1, int(v * hist)) for k, v in _HIST.items()})
    d.update(extra)
    return d


# development aid (planted-bug validation against a scratch worktree): VERIF_C05_STAGES="rel:300" restricts both tiers to
# the listed flavour:cases stages; never set in a normal check
_override = os.environ.get("VERIF_C05_STAGES")
_runs_override = None
if _override:
    _runs_override = [dict(flavour=x.split(":")[0], cases=int(x.split(":")[1])) for x in _override.split(",")]

prop("C05",
     harness="c05_loglik",
     runs={"quick": _runs_override, "thorough": _runs_override} if _runs_override else {
         "quick": [dict(flavour="asan", cases=140), dict(flavour="rel", cases=1400)],
         "thorough": [dict(flavour="asan", cases=700), dict(flavour="rel", cases=12000),
                      dict(flavour="memcheck", cases=120, mode="orders", env={"VERIF_C05_ALLOC": "plain"})],
     },
     min_nontrivial={"quick": 900, "thorough": 8000},
     min_obs={"quick": _scaled(50, {"bins_in_P": 300000, "nonzeros_in_P": 3000000, "value_checks": 7000,
                                    "gradient_voxels_checked": 800000, "sensitivity_voxels_checked": 400000,
                                    "hessian_checks": 200000, "orders_checked": 12000, "subsets_evaluated": 1800,
                                    # full-data PENALISED Hessian product against out0 + sum of subset products - H_prior v
                                    "penalised_full_hessian_checks": 250, "penalised_full_gradient_checks": 250}, hist=6),
              "thorough": _scaled(300, {"bins_in_P": 2000000, "orders_checked": 100000, "value_checks": 50000,
                                        "hessian_checks": 1500000, "subsets_evaluated": 15000}, hist=45)},
     rule=("case = one generated configuration: cylindrical scanner with 8..24 (thorough 32) detectors per ring and 1..4 (5) rings, "
           "span/max ring difference/view mashing/tangential truncation/arc-correction, TOF with 3 or 5 timing positions, odd square "
           "image of 3..9 (11) voxels across; ray-tracing matrix with random symmetry/cache/ray settings; random positive image, "
           "Poisson-like counts (0 or >= 1), optional additive term, trivial / proj-data / chained normalisation (TOF and non-TOF norm "
           "data), zero_seg0_end_planes, max_segment_num_to_process, use_subset_sensitivities, sensitivities recomputed or read back "
           "from files, optional QuadraticPrior, random number of subsets in 1..num_views; EVERY subset is evaluated.  Every second "
           "case additionally takes ONE objective-function object through a random history of 2..5 configurations that ends in the "
           "case's configuration: between two set_up() calls 1..3 of {use_subset_sensitivities, num_subsets, zero_seg0_end_planes, "
           "max_segment_num_to_process, additive term (none / the case's / other data), normalisation object (the case's / trivial / "
           "other non-TOF / other TOF norm data), measured data object, sensitivities recomputed or read from (other) files, prior, "
           "projector pair (same or other symmetry/cache/ray settings)} are changed through the public setters in random order, some "
           "setters are called again with an unchanged value, and a random selection of value / sub-gradient / gradient+sensitivity / "
           "subset and total sensitivity / full gradient / Hessian product / add_subset_sensitivity / penalised gradient is "
           "requested after each intermediate set_up; an intermediate configuration that set_up rejects ends the history without "
           "verdict.  The explicit "
           "system matrix is extracted row by row from an identically configured matrix object and all quantities are recomputed "
           "in float64.  non-trivial = the explicit matrix has >= 50 non-zeros and at least one bin that takes part has a non-zero "
           "count; distinct = distinct configuration descriptor"),
     technique=("runtime monitoring: executable float64 reference model on the explicit system matrix, computed float32 rounding "
                "band, 24-order first-use matrix on fresh objects, random re-configuration histories on one object compared with the "
                "reference and bit for bit with a fresh object (a failing history is reduced to the settings that must change between "
                "two set_up()s, which name the violation key), objects constructed in pre-filled storage so that reads of "
                "never-initialised members are reproducible; ASan/UBSan/asserts; memcheck on the order matrix"),
     level_text=("for every generated configuration the value (absolute and differences), every subset gradient, gradient+sensitivity, "
                 "subset and total sensitivity and Hessian-times-vector returned by the real objective function are compared with the "
                 "documented model ybar = D(F lambda + a) evaluated in float64 on the explicit matrix, inside a rounding band derived "
                 "from operation counts; subset sums are compared with the full-data API and with a one-subset object, penalised "
                 "quantities with unpenalised minus the prior's share, and all 24 orders of first use of value / gradient / "
                 "sensitivity / Hessian product on fresh objects must agree bit for bit; and on every second configuration one object that "
                 "reaches the configuration through a history of 1..4 earlier configurations and set_up() calls (settings changed through "
                 "the public setters, caches filled by requests in between) must return for every subset the gradient, "
                 "gradient+sensitivity, subset sensitivity, value and Hessian product, and the full gradient, total sensitivity and "
                 "penalised value/gradient, inside the same bands around the float64 reference AND bit for bit equal to the freshly "
                 "configured object"),
     level_note=("trusted: the ~300-line reference model in harness/c05_loglik.cxx and ProjMatrixByBin::get_proj_matrix_elems_for_one_bin "
                 "as the definition of F (its geometric correctness is C03); MPI paths are not built; only the ray-tracing matrix "
                 "projector pair is exercised; TOF data with non-TOF sensitivities are compared with the documented non-TOF back "
                 "projection, and the 'gradient+sensitivity minus gradient' clause is not evaluated there (TOF kernel truncation); "
                 "histories: results of the intermediate configurations are not examined; the class's use_tofsens flag has no setter "
                 "and is switched on for good by a set_up that meets TOF-only norm data, so histories of a configuration whose "
                 "sensitivity uses the non-TOF projector contain no TOF norm data; set_subsensitivity_filenames(\"\") is rejected by the "
                 "library (boost::format), so a history never goes back to 'no file name'"),
     assumptions=["image index range is odd and square transaxially (the matrix symmetries need a symmetric range)",
                  "counts are kept a factor 20 below the documented quotient cap (1e4) of divide_and_truncate/accumulate_loglikelihood and "
                  "are 0 or >= 1, so the documented truncations never switch; the numerator truncation inside the Hessian product is "
                  "modelled with a 0.1% guard zone",
                  "Hessian input vectors are non-negative (the class rejects negative forward projections)",
                  "a configuration rejected by set_up (unbalanced subsets without subset sensitivities) is skipped; in a history an "
                  "intermediate configuration rejected by set_up ends that history without verdict",
                  "sensitivities 'read from file' at intermediate steps of a history are arbitrary positive images with the target's "
                  "characteristics (the class accepts any such image as supplied sensitivity)"],
     )
