import os

from vlib.props import prop

_KINDS = {"cfg_tof": 1, "cfg_nontof": 1, "cfg_additive": 1, "cfg_no_additive": 1, "cfg_norm_trivial": 1, "cfg_norm_projdata": 1,
          "cfg_norm_chained": 1, "cfg_subsets_gt1": 1, "cfg_zero_seg0_end_planes": 1, "cfg_max_segment_reduced": 1,
          "cfg_no_subset_sensitivities": 1, "cfg_sensitivity_supplied": 1, "cfg_prior": 1}


def _scaled(f, extra):
    d = {k: max(1, int(v * f)) for k, v in _KINDS.items()}
    d.update(extra)
    return d


# development aid (planted-bug validation against a scratch worktree): VERIF_C05_STAGES="rel:300" restricts both tiers to
# the listed flavour:cases stages; never set in a normal check
_override = os.environ.get("VERIF_C05_STAGES")
_runs_override = None
if _override:
    _runs_override = [dict(flavour=x.split(":")[0], cases=int(x.split(":")[1])) for x in _override.split(",")]

prop("C05",
     harness="c05_loglik",
     runs={"quick": _runs_override, "thorough": _runs_override} if _runs_override else {
         "quick": [dict(flavour="asan", cases=140), dict(flavour="rel", cases=1400)],
         "thorough": [dict(flavour="asan", cases=800), dict(flavour="rel", cases=12000),
                      dict(flavour="memcheck", cases=120, mode="orders", env={"VERIF_C05_ALLOC": "plain"})],
     },
     min_nontrivial={"quick": 900, "thorough": 8000},
     min_obs={"quick": _scaled(50, {"bins_in_P": 300000, "nonzeros_in_P": 3000000, "value_checks": 7000,
                                    "gradient_voxels_checked": 800000, "sensitivity_voxels_checked": 400000,
                                    "hessian_checks": 200000, "orders_checked": 12000, "subsets_evaluated": 1800}),
              "thorough": _scaled(300, {"bins_in_P": 2000000, "orders_checked": 100000, "value_checks": 50000,
                                        "hessian_checks": 1500000, "subsets_evaluated": 15000})},
     rule=("case = one generated configuration: cylindrical scanner with 8..24 (thorough 32) detectors per ring and 1..4 (5) rings, "
           "span/max ring difference/view mashing/tangential truncation/arc-correction, TOF with 3 or 5 timing positions, odd square "
           "image of 3..9 (11) voxels across; ray-tracing matrix with random symmetry/cache/ray settings; random positive image, "
           "Poisson-like counts (0 or >= 1), optional additive term, trivial / proj-data / chained normalisation (TOF and non-TOF norm "
           "data), zero_seg0_end_planes, max_segment_num_to_process, use_subset_sensitivities, sensitivities recomputed or read back "
           "from files, optional QuadraticPrior, random number of subsets in 1..num_views; EVERY subset is evaluated.  The explicit "
           "system matrix is extracted row by row from an identically configured matrix object and all quantities are recomputed "
           "in float64.  non-trivial = the explicit matrix has >= 50 non-zeros and at least one bin that takes part has a non-zero "
           "count; distinct = distinct configuration descriptor"),
     technique=("runtime monitoring: executable float64 reference model on the explicit system matrix, computed float32 rounding "
                "band, 24-order first-use matrix on fresh objects, objects constructed in pre-filled storage so that reads of "
                "never-initialised members are reproducible; ASan/UBSan/asserts; memcheck on the order matrix"),
     level_text=("for every generated configuration the value (absolute and differences), every subset gradient, gradient+sensitivity, "
                 "subset and total sensitivity and Hessian-times-vector returned by the real objective function are compared with the "
                 "documented model ybar = D(F lambda + a) evaluated in float64 on the explicit matrix, inside a rounding band derived "
                 "from operation counts; subset sums are compared with the full-data API and with a one-subset object, penalised "
                 "quantities with unpenalised minus the prior's share, and all 24 orders of first use of value / gradient / "
                 "sensitivity / Hessian product on fresh objects must agree bit for bit"),
     level_note=("trusted: the ~300-line reference model in harness/c05_loglik.cxx and ProjMatrixByBin::get_proj_matrix_elems_for_one_bin "
                 "as the definition of F (its geometric correctness is C03); MPI paths are not built; only the ray-tracing matrix "
                 "projector pair is exercised; TOF data with non-TOF sensitivities are compared with the documented non-TOF back "
                 "projection, and the 'gradient+sensitivity minus gradient' clause is not evaluated there (TOF kernel truncation)"),
     assumptions=["image index range is odd and square transaxially (the matrix symmetries need a symmetric range)",
                  "counts are kept a factor 20 below the documented quotient cap (1e4) of divide_and_truncate/accumulate_loglikelihood and "
                  "are 0 or >= 1, so the documented truncations never switch; the numerator truncation inside the Hessian product is "
                  "modelled with a 0.1% guard zone",
                  "Hessian input vectors are non-negative (the class rejects negative forward projections)",
                  "a configuration rejected by set_up (unbalanced subsets without subset sensitivities) is skipped"],
     )
