from vlib.props import prop

prop("C06",
     harness="c06_subsets",
     runs={
         "quick": [dict(flavour="asan", cases=96 + 500), dict(flavour="rel", cases=96 + 1500)],
         "thorough": [dict(flavour="asan", cases=96 + 6000), dict(flavour="rel", cases=96 + 30000)],
     },
     min_nontrivial={"quick": 50000, "thorough": 50000},
     min_obs={"quick": {"partitions_checked": 100000, "dist_viewgrams_covered": 5000, "full_iterations_checked": 500,
                        "schedules_randomised": 100, "schedules_fixed": 100, "balance_checks_balanced": 50,
                        "balance_checks_unbalanced": 50},
              "thorough": {"partitions_checked": 100000, "dist_viewgrams_covered": 100000}},
     exhaustive={"quick": "part A: ALL num_views 1..96 x num_subsets 1..num_views x segment ranges +-0..2 x 9 symmetry objects (trivial + 8 PET switch combinations)",
                 "thorough": "part A as in quick (complete)"},
     rule=("cases 0..95 = part A: for num_views = idx+1 the complete product num_subsets 1..num_views x segment ranges x symmetry "
           "objects is enumerated and every (segment, view) must be produced exactly once by find_basic_vs_nums_in_subset + related "
           "view/segment numbers (one sub-evaluation per (symmetry, range, views, subsets)); further cases alternate between part B (real "
           "objective function on a generated geometry: subsets_are_approximately_balanced() against an independent viewgram count, and "
           "the DIST_VIEWGRAM hook log of one sub-gradient per subset must cover every (segment, view, TOF) exactly once) and part C "
           "(OSMAPOSL::reconstruct with a recording objective function: subsets per full iteration, for start subset / start "
           "sub-iteration / randomised order).  non-trivial = >= 2 views (A), every B case, >= 2 subsets (C); distinct = distinct "
           "(symmetry, range, views, subsets) tuples and case descriptors"),
     technique="runtime monitoring: exhaustive enumeration of the real subset/symmetry functions with an exactly-once oracle, hook event log of processed viewgrams, recorded subset schedule of real reconstructions",
     level_text=("the finite configuration space named in the property (views 1..96 x subsets x segment ranges x symmetry classes) is "
                 "enumerated completely on the real functions; the exactly-once clause is additionally observed on what the gradient "
                 "computation actually processes (hook log), and the once-per-iteration clause on the subset numbers a real OSMAPOSL "
                 "run hands to its objective function; ASan/UBSan watch the randomised schedule code"),
     level_note="trusted: the counting code in harness/c06_subsets.cxx; randomised orders are seeded from time() inside STIR so those runs are not bit-replayable (the oracle is order-free)",
     assumptions=["symmetric segment ranges (-m..m) only, as the projectors request them"],
     )
