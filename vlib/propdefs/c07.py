from vlib.props import prop

# provisional: calibrated below after the first runs
_min_obs_quick = {
    "updates_checked": 1000,
}

prop("C07",
     harness="c07_osmaposl",
     runs={
         "quick": [dict(flavour="asan", cases=1500), dict(flavour="rel", cases=10000)],
         "thorough": [dict(flavour="asan", cases=6000), dict(flavour="rel", cases=60000)],
     },
     min_nontrivial={"quick": 5000, "thorough": 30000},
     min_obs={"quick": _min_obs_quick, "thorough": {k: 4 * v for k, v in _min_obs_quick.items()}},
     rule="provisional",
     technique="provisional",
     level_text="provisional",
     level_note="provisional",
     assumptions=[],
     )
