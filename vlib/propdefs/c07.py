from vlib.props import prop

# about 55% of what seeds 1..5 observe with the quick case counts below (see the evidence file for the actual numbers)
_min_obs_quick = {
    # (1) update formula
    "updates_checked": 80000, "voxels_compared": 12000000, "voxels_with_zero_subset_sensitivity": 3000000,
    "prior_none_em": 6000, "prior_quadratic_additive": 900, "prior_quadratic_multiplicative": 900,
    "prior_rdp_additive": 900, "prior_rdp_multiplicative": 900,
    "subsets_1": 2500, "subsets_2_to_4": 3500, "subsets_5_or_more": 3000,
    "cases_with_additive_term": 4000, "cases_with_normalisation": 4500,
    "cases_with_total_sensitivity_over_num_subsets": 1800, "cases_randomised_subset_order": 1000,
    # (2) positivity, incl. filters
    "nonnegativity_checks": 85000, "cases_with_filter": 700, "updates_not_compared_filter_applied": 4000,
    # (3),(4) one subset
    "monotonic_checks": 9000, "objective_values_compared": 11000, "count_preservation_checks": 6000,
    # (5) restart
    "restart_points": 38000, "restarts_checked": 25000, "restart_iterates_compared": 120000,
    "restarts_positivity_on_start_image_unchanged": 1700, "restarts_positivity_on_start_image_lifted": 13000,
    "saved_iterates_read_back": 18000, "file_roundtrip_restarts": 4000,
    "same_object_resumes_checked": 4000, "same_object_resume_iterates_compared": 17000,
}

prop("C07",
     harness="c07_osmaposl",
     runs={
         "quick": [dict(flavour="asan", cases=2400), dict(flavour="rel", cases=16000)],
         "thorough": [dict(flavour="asan", cases=4000), dict(flavour="rel", cases=30000)],
     },
     min_nontrivial={"quick": 12000, "thorough": 22000},
     min_obs={"quick": _min_obs_quick,
              "thorough": {k: int(2.2 * v) for k, v in _min_obs_quick.items()}},
     rule=("case = one generated configuration and one real OSMAPOSLReconstruction run through the public C++ API (set_up + "
           "reconstruct(target)): cylindrical scanner with 8..24(28) detectors, 1..3 rings, span 1, all or no oblique segments, 3..11 "
           "tangential positions, image 5x5..9x9 x (2 rings - 1) planes, ray-tracing matrix with a random subset of its symmetry "
           "switches, cylindrical or square FOV; Poisson counts drawn from the documented model (G truth + a)/n at 0.5..50 mean counts "
           "per bin, additive term on/off, normalisation factors 0.5..2 on/off; random positive start image; number of subsets drawn "
           "from ALL numbers the balance check accepts (1..number of views), start subset 0..N-1, 1..3 full iterations + a partial "
           "one (<= 20/36 sub-iterations), subset sensitivities or total sensitivity / N; case kinds: 8% Gaussian inter-iteration or "
           "inter-update filter (interval 1..3), 37% quadratic or relative-difference prior (penalisation 0.01..5, optional kappa, "
           "only_2D) with additive or multiplicative MAP model, 20% single-subset runs (half of them without additive term), rest "
           "plain OSEM; 12% randomised subset order; 25% with every iterate written to and read back from Interfile.  Every iterate "
           "is observed (input of each sub-gradient call of a recording objective function + returned target).  Restart: for every "
           "interruption point k (quick: 6 sampled per case) a FRESH reconstruction + objective function is started at k+1 from the "
           "iterate after k (memory copy or the file the uninterrupted run saved), enforce_initial_positivity off (60%) or on; and in half of "
           "the cases the SAME reconstruction + objective function objects are run for k sub-iterations, told to start at k+1, set up "
           "again and run on (interrupted and resumed on the same objects): the second leg must equal the uninterrupted run bit for bit.  "
           "non-trivial = matrix with >= 30 non-zeros, non-zero counts, >= 2 updates compared with the reference formula; distinct = "
           "distinct case descriptor"),
     technique=("runtime monitoring: every iterate of real OSMAPOSL runs compared voxel by voxel with a float64 reference of the "
                "documented update computed from the explicit system matrix (computed float32 bands), derived invariants "
                "(positivity, monotone likelihood, count preservation) and restart-vs-uninterrupted bit equality, under "
                "ASan/UBSan/asserts and at -O2"),
     level_text=("thousands of generated small reconstructions are run with the real OSMAPOSLReconstruction; after every sub-iteration "
                 "every voxel is compared with lambda * G_S'[y/(G_S lambda + a)] / s_S (0 where s_S = 0) evaluated in float64 from the "
                 "dense matrix G (rows of a ProjMatrixByBinUsingRayTracing configured like the one inside the objective function), with "
                 "the one-step-late denominator clamp(s + grad/N, s/10, 10 s) resp. s clamp(1 + grad, 0.1, 10) when a prior is present; "
                 "the acceptance band is 8(n+2)2^-23 sum|terms| propagated through forward projection, ratio, back projection and the "
                 "division; the subset actually used must follow the documented schedule; all iterates finite and >= 0 (also with "
                 "filters); with one subset the float64 log-likelihood of successive iterates (and the value reported by a real "
                 "objective function, itself compared with the float64 value) never decreases beyond the first-order rounding slack; "
                 "without additive term sum_v s_v lambda_v equals the total counts after every full-data update; files written at "
                 "every sub-iteration are bit-identical to the iterate in memory; a fresh reconstruction started at k+1 from the "
                 "iterate after k reproduces every later iterate bit-for-bit (same subset schedule), for all interruption points.  "
                 "Detection validated on planted mutations (see DESIGN.md section 9.4)"),
     level_note=("trusted: harness/common/recon_ref.h (sparse float64 model of forward/back projection, divide_and_truncate and divide "
                 "rules) and the system matrix rows as returned by ProjMatrixByBinUsingRayTracing (C03/C04 check those); the prior "
                 "gradient is taken from a separate instance of the same prior class (C09 checks it).  Voxels / bins closer to a "
                 "documented truncation switch (numerator <= max*1e-6, quotient cap 1e4, divide's small_num) than the float32 band are "
                 "excluded and counted; log-likelihood and count-preservation monitors skip steps in which a quotient was capped.  "
                 "Filters other than 'iterate stays non-negative, restart equal' have no closed form and are not compared with a "
                 "formula.  Restart with randomised subset order is not compared (rand() state is process history).  With "
                 "enforce_initial_positivity ON and a saved iterate that contains zeros, set_up lifts the zeros as documented; the "
                 "later iterates then legitimately differ and only 'voxels above 1e-6 unchanged by set_up' and positivity are checked "
                 "(counter restarts_positivity_on_start_image_lifted).  Not exercised: TOF, span > 1, list-mode / other objective "
                 "functions, parametric images, minimum/maximum relative change other than the defaults, post-filter, MPI/OpenMP"),
     assumptions=["counts are integers <= 1e5 and the start image is strictly positive, so that the only truncations of "
                  "divide_and_truncate that can be active are y = 0 and the documented quotient cap 1e4 (modelled)",
                  "the interrupted and the resumed run execute in the same process with the same binary, so identical float32 "
                  "arithmetic is expected (bit-for-bit comparison)",
                  "all lengths of the generated geometry are multiples of 1/8 mm with <= 6 significant digits, so that the Interfile "
                  "header of a saved iterate reproduces the geometry exactly (header precision is C10's subject)"],
     )
