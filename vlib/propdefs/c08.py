from vlib.props import prop

prop("C08",
     harness="c08_ossps",
     runs={
         "quick": [dict(flavour="asan", cases=40), dict(flavour="rel", cases=400)],
         "thorough": [dict(flavour="asan", cases=400), dict(flavour="rel", cases=8000)],
     },
     min_nontrivial={"quick": 100, "thorough": 2000},
     min_obs={"quick": {"updates_checked": 1000},
              "thorough": {"updates_checked": 20000}},
     rule="provisional",
     technique="provisional",
     level_text="provisional",
     level_note="provisional",
     assumptions=[],
     )
