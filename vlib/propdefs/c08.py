from vlib.props import prop

_min_obs_quick = {
    # (1) update formula / (3) bounds
    "updates_checked": 50000, "bound_checks": 50000, "voxels_compared": 8000000,
    "voxels_clamped_at_zero": 80000, "voxels_clamped_at_upper_bound": 150000,
    "voxels_with_thresholded_denominator": 300000,
    # the relaxation schedule is really discriminated (updates whose band separates n from n+1)
    "updates_discriminating_iteration_numbering": 40000,
    # (2) precomputed denominator
    "denominator_voxels_compared": 800000, "denominator_bins_with_capped_quotient": 80000,
    # (4) restart
    "restarts_checked": 18000, "restart_iterates_compared": 100000, "file_roundtrip_restarts": 4000,
    "restarts_with_denominator_read_from_file": 6000, "saved_iterates_read_back": 14000,
    "same_object_resumes_checked": 1600, "same_object_resume_iterates_compared": 8000,
    # configuration classes
    "prior_none": 3000, "prior_quadratic": 1000, "prior_quadratic_kappa": 1000, "prior_quadratic_recompute_curvature": 800,
    "subsets_1": 700, "subsets_2_to_4": 2500, "subsets_5_or_more": 2500,
    "cases_with_upper_bound": 4000, "cases_randomised_subset_order": 500, "cases_any_number_of_subsets": 1700,
    "cases_with_additive_term": 3000, "cases_with_normalisation": 3000,
}

prop("C08",
     harness="c08_ossps",
     runs={
         "quick": [dict(flavour="asan", cases=800), dict(flavour="rel", cases=9000)],
         "thorough": [dict(flavour="asan", cases=1500), dict(flavour="rel", cases=30000)],
     },
     min_nontrivial={"quick": 6000, "thorough": 20000},
     min_obs={"quick": _min_obs_quick,
              # thorough cases are larger (up to 28 detectors, 36 sub-iterations, every interruption point)
              "thorough": {k: 3 * v for k, v in _min_obs_quick.items()}},
     rule=("case = one generated reconstruction problem: cylindrical scanner with 8..24/28 detectors, 1..3 rings, 3..11 tangential "
           "positions, 5x5..9x9 x (2 rings - 1) image, ray-tracing matrix with a random subset of the symmetry switches and "
           "cylindrical or square FOV (explicit matrix G extracted row by row into float64), Poisson data from the documented model "
           "(G truth + a)/n with optional additive term and normalisation factors; OSSPS with 1..#views subsets (70%: a number the "
           "balance check accepts, 30%: any), 1..3 full iterations plus a partial one (<= 20/36 sub-iterations), random start "
           "subset, ordered or (10%) randomised subset order, subset or total/N sensitivities, relaxation parameter 0.3..2, "
           "relaxation gamma 0 / 0.1 / 0.05..1, upper bound absent (35%) or 0.8..4 x mean truth, no prior (50%) or QuadraticPrior "
           "(3-D / only_2D, penalisation 0.01..10, with/without kappa image; 30% of these through a subclass that keeps "
           "parabolic_surrogate_curvature_depends_on_argument() == true, i.e. the recompute-penalty-term-in-denominator path), "
           "enforce initial positivity on (20%) / off, start image with/without exact zeros, iterates saved as Interfile (30%).  "
           "Per case the uninterrupted run is observed at every sub-iteration (input of every sub-gradient call + final target) "
           "and restarted from a fresh reconstruction + objective function object at every (quick: <= 5 random) interruption "
           "point, from the in-memory iterate or the saved file, with the denominator recomputed or read from the file written "
           "by the first run; in half of the cases without enforce-initial-positivity the SAME reconstruction + objective function "
           "objects are run for k sub-iterations, told to start at k+1, set up again and run on, and the second leg must equal "
           "the uninterrupted run bit for bit.  non-trivial = matrix with >= 30 non-zeros, data with counts, >= 2 updates compared with the "
           "reference; distinct = distinct case descriptor"),
     technique=("runtime monitoring: the real OSSPSReconstruction is run on generated problems whose system matrix is known explicitly; "
                "every iterate is compared with a float64 reference of the documented update (computed float32 bands), the saved "
                "denominator with its closed form, bounds are checked on every iterate, and restarted runs are compared bit-for-bit "
                "with the uninterrupted run; under ASan/UBSan/asserts and at -O2"),
     level_text=("for thousands of generated problems every OSSPS sub-iteration is compared voxel by voxel with "
                 "clamp(lambda + zeta_n (N grad_S L(lambda) - grad R(lambda)) / D, 0, U) evaluated in float64 from the explicit matrix, "
                 "D = max(D_pre + 2 x the prior's surrogate curvature, 1e-5 x smallest positive element), "
                 "D_pre = sum_b G_bv (G1)_b / (y_b n_b^2) with divide_and_truncate's documented rules, within a band computed from "
                 "operation counts and sums of absolute terms; zeta_n = alpha/(1+gamma n) must fit ALL sub-iterations of a run with "
                 "one numbering of the full iterations (0- or 1-based; the counters show that > 80% of the updates separate n from "
                 "n+1); the subset used must follow the documented schedule; the denominator file written at set_up must equal D_pre "
                 "and be non-negative; every iterate must be finite and inside [0, upper bound] (hundreds of thousands of voxels "
                 "actually clamped at either bound, and thresholded denominators, are observed); saved Interfile iterates must equal "
                 "the in-memory iterates bit-for-bit; a fresh object restarted at k+1 from the iterate after k must reproduce every "
                 "later iterate bit-for-bit (no prior and quadratic prior, kappa, recomputed curvature).  Detection validated on "
                 "planted changes: factor num_subsets dropped, relaxation from the sub-iteration number, relaxation counted from the "
                 "start sub-iteration, denominator threshold removed, upper bound ignored, factor 2 of the prior curvature dropped"),
     level_note=("trusted: the float64 reference and bands in harness/common/recon_ref.h (sps_step, precomputed_denominator, "
                 "compute_ratio) and the comparison code in harness/c08_ossps.cxx; the prior's own gradient and surrogate curvature are "
                 "taken from a separate QuadraticPrior instance (C09 checks those).  Not covered: priors other than QuadraticPrior, "
                 "inter-iteration / inter-update filters, 'write update image', precomputed denominator := 1, parametric images, "
                 "projectors other than the ray-tracing matrix, TOF data; voxels whose reference lies within the band of a documented "
                 "truncation switch are excluded (counted: voxels_skipped_near_truncation_switch)"),
     assumptions=["the numbering of full iterations in zeta_n is not fixed by the statement: n = 0 or n = 1 for the first full iteration "
                  "are both accepted, provided the same numbering fits every sub-iteration of the run",
                  "the first sub-iteration (subiteration_num 1) may set voxels that no bin sees to 0 "
                  "(fill_nonidentifiable_target_parameters); the reference update starts from the image the sub-gradient was computed on",
                  "enforce_initial_positivity is documented to lift non-positive voxels of the start image at set_up: with it on, a "
                  "restart whose saved iterate contains zeros is not required to reproduce the uninterrupted run (counted: "
                  "restarts_positivity_on_start_image_lifted)",
                  "restart equality is required for the ordered subset schedule only (a randomised order draws new random numbers)",
                  "numbers of subsets the OSMAPOSL balance check would reject are exercised too (30%): the class documentation says it "
                  "'probably assumes balanced subsets' for convergence, the update formula of the statement does not depend on it"],
     )
