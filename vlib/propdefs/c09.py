from vlib.props import prop

prop("C09",
     harness="c09_priors",
     runs={
         "quick": [dict(flavour="asan", cases=700), dict(flavour="rel", cases=6000)],
         "thorough": [dict(flavour="asan", cases=6000), dict(flavour="rel", cases=120000)],
     },
     min_nontrivial={"quick": 4000, "thorough": 80000},
     min_obs={"quick": {"values_checked": 5000, "gradient_voxels_checked": 300000, "hessian_rows_checked": 200000,
                        "symmetry_pairs_checked": 1000000, "psd_checks": 15000,
                        "prior_quadratic": 1000, "prior_rdp": 1000, "prior_logcosh": 800, "cfg_logcosh_scalar_times_difference_beyond_30": 150, "prior_pls": 400,
                        "singleton_axis_cases": 800, "user_weights_cases": 1000, "user_weights_5_cases": 200,
                        "user_weights_2d_cases": 200, "only_2d_effective_cases": 200, "kappa_cases": 1500,
                        "hessian_unit_image_products": 100000, "hessian_border_rows_checked": 100000,
                        "nonzero_min_index_cases": 2000, "anisotropic_cases": 2000, "parser_route_cases": 1000},
              "thorough": {"values_checked": 100000, "hessian_rows_checked": 4000000, "prior_pls": 8000,
                           "user_weights_5_cases": 4000, "kappa_cases": 30000}},
     rule=("case = one generated (prior, image, configuration): prior in {Quadratic, Relative Difference (epsilon>0), log-cosh, PLS}; "
           "image 1x1x1 .. 8x9x10 with singleton / two-voxel axes, random non-zero minimum indices, anisotropic voxel sizes, positive "
           "content (iid, ramp+noise, piecewise constant with exact ties) at scales 0.02/1/50; default weights (3-D and only_2D) or "
           "point-symmetric non-negative user weights 3x3x3, 5x5x5, 1x3x3, 1x5x5, 3x1x1 (with zeros, with/without a centre weight); "
           "optional positive non-uniform kappa image; penalisation factor 0.01..50; gamma 0..5, epsilon 1e-3..1 x scale, log-cosh "
           "scalar 0.05..20 / scale, PLS alpha/eta and random or flat anatomical image; configured through the constructor + setters "
           "or through the keyword parser; the lazily computed weights are initialised by a random entry point.  Per case: value "
           "and every gradient voxel against the float64 reference of the documented formula, every voxel as Hessian row against the "
           "reference, all symmetric pairs, H e_j for all (or a cost-bounded sample of) voxels, H v for 3-4 vectors, PSD, midpoint "
           "convexity, linearity in the penalisation factor, factor 0, uniform image.  non-trivial = image with >= 2 voxels and "
           "non-uniform content; distinct = distinct case descriptor"),
     technique=("runtime monitoring: independent float64 reference of the documented prior formulas (value, analytic gradient and Hessian, "
                "self-validated by float64 central differences at run time) compared with computed float32 error bands, plus "
                "STIR-against-STIR algebraic relations, under ASan/UBSan/asserts (border clipping) and the release build"),
     level_text=("thousands of generated prior configurations (4 prior classes x image shapes incl. degenerate axes x weights x kappa x "
                 "parameters x construction route) are evaluated through the public GeneralisedPrior API; value, every gradient voxel "
                 "and every Hessian row are compared with a float64 evaluation of the documented formula that sums in-image neighbours "
                 "only, within a band computed from the operation count and the sum of absolute terms (8(n+2)2^-23 sum|t|); the "
                 "reference's own value/gradient/Hessian consistency is re-established by float64 central differences in every case, "
                 "so agreement implies STIR's three quantities are mutually consistent; symmetry, row == H e_j, H v, v^T H v >= -band, "
                 "midpoint convexity, exact linearity in the penalisation factor and gradient(uniform) == 0 are checked on STIR's "
                 "outputs directly; the asan flavour watches the neighbourhood clipping at the image border"),
     level_note=("trusted: the ~250-line float64 reference in harness/c09_priors.cxx (potentials and their derivatives are cross-checked "
                 "numerically at run time), clang-14 sanitizer runtimes.  Not covered: negative or zero voxel values, epsilon == 0 "
                 "(documented as problematic), non-centred / even-sized weight arrays, parabolic_surrogate_curvature, CUDA priors, "
                 "kappa images with non-positive entries"),
     assumptions=["user weights are point symmetric (w_dr == w_-dr) and non-negative: with other weights the documented QuadraticPrior "
                  "gradient formula is not the derivative of the documented value and the Hessian rows are not symmetric; this is how "
                  "the formulas are documented, so it is excluded rather than reported (VERIF_C09_ASYM=1 demonstrates it)",
                  "PLS: finite differences whose forward neighbour lies outside the image are taken as 0 (the documentation does not "
                  "specify the border rule; this is what compute_value implements and what makes the value differentiable)",
                  "log-cosh: log(cosh(x)) evaluated in float32 has an absolute error of a few 2^-23 (relative error of cosh); the band "
                  "of the value uses (1+log cosh)/(2 s^2) as term magnitude, sech^2 uses the conditioning factor 1+2|x|",
                  "add_multiplication_with_approximate_Hessian is only checked for QuadraticPrior (documented as 'weights multiplied by "
                  "the input'); for the other priors error() is the documented behaviour"],
     )
