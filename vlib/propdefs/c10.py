from vlib.props import prop

_TYPES = ["SCHAR", "UCHAR", "SHORT", "USHORT", "INT", "UINT", "LONG", "ULONG", "FLOAT", "DOUBLE"]

prop("C10",
     harness="c10_imageio",
     runs={
         "quick": [dict(flavour="asan", cases=1000),
                   dict(flavour="rel", cases=5000)],
         "thorough": [dict(flavour="asan", cases=6000),
                      dict(flavour="rel", cases=60000)],
     },
     min_nontrivial={"quick": 4000, "thorough": 45000},
     min_obs={"quick": dict({"images_written": 50000, "voxels_compared": 4000000, "positions_compared": 4000000,
                             "data_files_decoded_independently": 50000,
                             "truncation_cases": 400, "truncation_lengths_tested": 15000, "truncations_rejected": 15000,
                             "dynamic_interfile_cases": 200, "dynamic_multi_cases": 200,
                             "parametric_interfile_cases": 200, "parametric_multi_cases": 200,
                             "exam_info_fields_compared": 80000, "exam_radionuclide_compared": 5000,
                             "exam_energy_window_compared": 4000, "exam_calibration_compared": 4000,
                             "byte_order_little": 20000, "byte_order_big": 20000,
                             "scale_mode_auto": 30000, "scale_mode_larger": 6000, "scale_mode_larger-nice": 4000,
                             "scale_mode_too-small": 2000, "geometry_negative_min_index": 1200,
                             "dist_huge": 150, "dist_tiny": 150, "dist_all-zero": 80, "dist_constant": 120, "dist_all-negative": 40,
                             "dist_nonpositive-with-zero": 20, "scale_zero_images": 2000,
                             "unsigned_negatives_truncated": 200000,
                             "autoscale_UINT": 3000, "autoscale_LONG": 3000, "autoscale_ULONG": 3000, "autoscale_DOUBLE": 3000,
                             "images_with_quotient_beyond_int_range": 8000, "double_output_unscaled": 3000,
                             "header_scale_bit_exact": 50000},
                            **{"type_" + t: 4000 for t in _TYPES}),
              "thorough": dict({"images_written": 700000, "voxels_compared": 70000000, "positions_compared": 70000000,
                                "truncation_lengths_tested": 250000, "truncations_rejected": 250000, "dynamic_cases": 5000,
                                "parametric_cases": 5000, "exam_info_fields_compared": 1500000,
                                "images_with_quotient_beyond_int_range": 150000, "scale_zero_images": 20000,
                                "header_scale_bit_exact": 700000, "unsigned_negatives_truncated": 5000000},
                               **{"type_" + t: 70000 for t in _TYPES})},
     rule=("case = one generated VoxelsOnCartesianGrid<float> (sizes 1..12 per axis, minimum indices -30..20 incl. STIR's standard "
           "layout, voxel sizes 0.05..50, origins 0 / +-1000 voxels / sub-micron; values: positive, mixed sign, 1e25..1e30, 1e-30..1e-25, "
           "all zero, constants, all negative, non-positive with a zero, counts, sparse, 60 decades of dynamic range; ExamInfo with modality, "
           "patient position, 0/1 time frame, radionuclide (database or user-defined), energy window, calibration factor) written "
           "with InterfileOutputFileFormat for all 10 NumericTypes x 2 settings (both byte orders; scale_to_write_data automatic - once "
           "for every type - too small, larger, larger with <=4 digits, 1) and read back = 20 images per case (14 of 20 cases); or a "
           "DynamicDiscretisedDensity of 1..4 frames / a ParametricVoxelsOnCartesianGrid (1 time frame) through the Interfile and Multi "
           "formats (4 of 20; the Multi formats also configured through their parser); or a truncation sweep of the data file at every "
           "length (<=160 bytes; else 48 lengths) plus the missing file (2 of 20).  non-trivial = image(s) with >= 2 voxels and "
           "non-constant values (truncation: >= 2 lengths); distinct = distinct case descriptor"),
     technique=("runtime monitoring: write/read round trips of generated images through the real Interfile/Multi writers and the "
                "read_from_file registry, compared voxel by voxel with the in-memory original; the header text and the binary data file "
                "are also decoded independently (stored integers: order / sign = no wrap-around; classification of a wrong value as "
                "writer- or header-caused); fault injection by truncating the data file; under ASan/UBSan/asserts and -O2"),
     level_text=("tens of thousands (quick) to millions (thorough) of image files are written and read back; for every voxel the "
                 "physical position is compared within the computed float32 round-off of writer and reader (5-7 orders below "
                 "half a voxel), the value bit-exactly for FLOAT output and for DOUBLE output without rescaling, and for scaled "
                 "integers within half a quantisation step (the step the header declares) of the original; unsigned truncation, "
                 "sign and order of the stored integers (no overflow) are checked on the decoded data file; exam-info numbers must "
                 "come back within 1 float32 ulp (times: double precision); every truncation length must be rejected"),
     level_note=("trusted: the ~150 lines of header/binary decoding and the comparison code in harness/c10_imageio.cxx; "
                 "ECAT/ITK formats, non-VoxelsOnCartesianGrid densities, NaN/Inf voxels and |values| outside [1e-30,5e30] are not "
                 "covered; dynamic/parametric Interfile images of modality NM are compared only up to the known finding "
                 "'data-offsets-ignored-on-read'"),
     assumptions=["positions are required within 2^-22*(sum of magnitudes entering the float32 computations of writer and reader): the "
                  "reader re-normalises the index range and recomputes the origin from the first pixel offset in float32",
                  "for 32/64-bit integer output half a quantisation step is below float32 resolution: the value bands add the computed "
                  "float32 round-off of the writer's division/rounding (2^-22*|quotient| steps) and of the reader's product (4*2^-24*|value|); "
                  "DOUBLE output with a scale factor other than 1 is required within 4*2^-24*|value| (float32 division and product)",
                  "patient rotation 'left'/'right' is written as Interfile 3.3's 'other' (modelled, counted as "
                  "patient_rotation_left_right_stored_as_other); an unset/Unknown radionuclide is not compared (the reader substitutes the "
                  "modality's default); a radionuclide whose name is in STIR's database is read back from the database",
                  "generator restrictions: energy window either unset or 0 < low < high (ExamInfo::has_energy_information needs low > 0); "
                  "frame durations > 0; single images carry at most 1 time frame, parametric images exactly 1 (single-image reader keeps the "
                  "first frame only, documented by its warning; InterfileImageHeader documents multiple time frames OR multiple data types); "
                  "Interfile dynamic/parametric formats document native byte order only: the byte order they answer is the one used for "
                  "decoding; truncation sweeps of dynamic files use a modality other than NM"],
     )
