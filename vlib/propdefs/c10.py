from vlib.props import prop

_TYPES = ["SCHAR", "UCHAR", "SHORT", "USHORT", "INT", "UINT", "LONG", "ULONG", "FLOAT", "DOUBLE"]

prop("C10",
     harness="c10_imageio",
     runs={
         # a probe case (automatic scaling for UINT/LONG/ULONG/DOUBLE) ends the asan process through UBSan (float-cast-overflow in
         # stir::round): the stride keeps the number of process restarts per shard far below the driver's limit
         "quick": [dict(flavour="asan", cases=1000, env={"VERIF_C10_PROBE_STRIDE": "2"}),
                   dict(flavour="rel", cases=5000, env={"VERIF_C10_PROBE_STRIDE": "2"})],
         "thorough": [dict(flavour="asan", cases=10000, env={"VERIF_C10_PROBE_STRIDE": "20"}),
                      dict(flavour="rel", cases=100000, env={"VERIF_C10_PROBE_STRIDE": "2"})],
     },
     min_nontrivial={"quick": 4000, "thorough": 80000},
     min_obs={"quick": dict({"images_written": 50000, "voxels_compared": 4000000, "positions_compared": 4000000,
                             "truncation_cases": 400, "truncation_lengths_tested": 15000, "truncations_rejected": 15000,
                             "dynamic_interfile_cases": 200, "dynamic_multi_cases": 200,
                             "parametric_interfile_cases": 200, "parametric_multi_cases": 200,
                             "exam_info_fields_compared": 80000, "exam_radionuclide_compared": 5000,
                             "exam_energy_window_compared": 4000, "exam_calibration_compared": 4000,
                             "byte_order_little": 20000, "byte_order_big": 20000,
                             "scale_mode_auto": 15000, "scale_mode_larger": 12000, "scale_mode_larger-nice": 4000,
                             "scale_mode_too-small": 1000, "geometry_negative_min_index": 1200,
                             "dist_huge": 150, "dist_tiny": 150, "dist_all-zero": 80, "dist_constant": 120, "dist_all-negative": 40,
                             "unsigned_negatives_truncated": 200000, "probe_cases": 50},
                            **{"type_" + t: 4000 for t in _TYPES}),
              "thorough": dict({"images_written": 1200000, "voxels_compared": 100000000, "truncation_lengths_tested": 400000,
                                "truncations_rejected": 400000, "dynamic_cases": 8000, "parametric_cases": 8000,
                                "exam_info_fields_compared": 2000000, "probe_cases": 1000},
                               **{"type_" + t: 100000 for t in _TYPES})},
     rule=("case = one generated VoxelsOnCartesianGrid<float> (sizes 1..12 per axis, minimum indices -30..20 incl. STIR's standard "
           "layout, voxel sizes 0.05..50, origins 0 / +-1000 voxels / sub-micron; values: positive, mixed sign, 1e25..1e30, 1e-30..1e-25, "
           "all zero, constants, all negative, non-positive with a zero, counts, sparse, 60 decades of dynamic range; ExamInfo with modality, "
           "patient position, 0/1 time frame, radionuclide (database or user-defined), energy window, calibration factor) written "
           "with InterfileOutputFileFormat for all 10 NumericTypes x 2 settings (both byte orders; scale_to_write_data automatic, too "
           "small, larger, larger with <=4 digits) and read back = 20 images per case (12 of 20 cases); or a DynamicDiscretisedDensity "
           "of 1..4 frames / a ParametricVoxelsOnCartesianGrid through the Interfile and Multi formats (4 of 20; the Multi formats also "
           "configured through their parser); or a truncation sweep of the data file at every length (<=160 bytes; else 48 lengths) "
           "plus the missing file (2 of 20); or a probe of automatic scaling for UINT/LONG/ULONG/DOUBLE (every 2nd..40th of the "
           "remaining 1 of 20).  non-trivial = image(s) with >= 2 voxels and non-constant values (truncation: >= 2 lengths); "
           "distinct = distinct case descriptor"),
     technique=("runtime monitoring: write/read round trips of generated images through the real Interfile/Multi writers and the "
                "read_from_file registry, compared voxel by voxel with the in-memory original and with an independent decoding of "
                "the header text and the binary data file; fault injection by truncating the data file; under ASan/UBSan/asserts and -O2"),
     level_text=("tens of thousands (quick) to millions (thorough) of image files are written and read back; for every voxel the "
                 "physical position is compared within a computed band (6 header digits + float32 round-off, 3-5 orders below "
                 "half a voxel), the value bit-exactly for FLOAT output and, for scaled integers, (i) the stored integer against "
                 "value/scale within half a step and (ii) the value read back within half a step, separating the effect of the "
                 "6-digit scale factor of the header; unsigned truncation, sign, order and type range are checked on the stored "
                 "integers; exam-info fields at the precision written; every truncation length must be rejected"),
     level_note=("trusted: the ~150 lines of header/binary decoding and the comparison code in harness/c10_imageio.cxx; the "
                 "scale factor used by the writer is obtained from the library's own find_scale_factor(); ECAT/ITK formats, "
                 "non-VoxelsOnCartesianGrid densities, NaN/Inf voxels and |values| outside [1e-30,5e30] are not covered"),
     assumptions=["the Interfile header carries voxel sizes, first-pixel offsets, times and exam-info numbers with 6 significant digits: "
                  "positions are required within 1e-5*(|first pixel offset|+extent) + 2^-22*(sum of magnitudes entering the float32 "
                  "computation); times/energies/half-life/calibration within 5.5e-6 relative",
                  "for 32/64-bit integer output half a quantisation step is below float32 resolution: the value bands add the computed "
                  "float32 round-off of the writer's division/rounding (2^-22*|quotient| steps) and of the reader's product (4*2^-24*|value|)",
                  "patient rotation 'left'/'right' is written as Interfile 3.3's 'other' (modelled, counted as "
                  "patient_rotation_left_right_stored_as_other); an unset/Unknown radionuclide is not compared (the reader substitutes the "
                  "modality's default); a radionuclide whose name is in STIR's database is read back from the database",
                  "generator restrictions: energy window either unset or 0 < low < high (ExamInfo::has_energy_information needs low > 0); "
                  "frame durations > 0; single images carry at most 1 time frame, Multi-parametric exactly 1 (single-image reader keeps the "
                  "first frame only, documented by its warning); Interfile dynamic/parametric and Multi formats are native byte order only "
                  "(documented; the request for the other order must be answered with native); truncation sweeps of dynamic files use a "
                  "modality other than NM",
                  "automatic scaling (scale_to_write_data=0) for UINT/LONG/ULONG/DOUBLE output is exercised only in dedicated probe cases "
                  "(stir::round() returns int: undefined behaviour ends the sanitizer process); in all other cases these types get a "
                  "scale that keeps value/scale inside int"],
     )
