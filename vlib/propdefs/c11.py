from vlib.props import prop

prop("C11",
     harness="c11_arrays",
     runs={
         "quick": [dict(flavour="asan", cases=51 + 12000), dict(flavour="rel", cases=51 + 30000)],
         "thorough": [dict(flavour="asan", cases=1993 + 100000), dict(flavour="rel", cases=1993 + 300000),
                      dict(flavour="memcheck", cases=1500, env={"VERIF_C11_SKIP_EXH": "1"})],
     },
     min_nontrivial={"quick": 10000, "thorough": 100000},
     min_obs={"quick": {"exhaustive_blocks": 102, "random_histories": 10000, "alias_checks": 100, "arith_incompatible": 100},
              "thorough": {"exhaustive_blocks": 3986, "random_histories": 100000}},
     exhaustive={"quick": "all operation sequences of length 3 over the 1-D alphabet (VectorWithOffset, NumericVectorWithOffset, Array<1>)",
                 "thorough": "all operation sequences of length 4 over the 1-D alphabet for the three 1-D classes"},
     rule=("case = one block of 4000 sequences of the bounded-exhaustive enumeration (every sequence of the stated length over the "
           "~40-entry 1-D operation alphabet, per class) or one random history (5..120/500 steps) on VectorWithOffset / "
           "NumericVectorWithOffset / Array<1..4> / memory-viewing Array<1>; after every step the object is compared with a reference "
           "index-range map (size, range, every element, iteration order, at() inside/outside, equality, aliasing of viewed memory). "
           "non-trivial = sequence of >= 2 operations (exhaustive) or history of >= 5 steps; distinct = distinct sequence index / "
           "distinct generated history descriptor"),
     technique="runtime monitoring: history + executable reference map, bounded-exhaustive and random operation histories under ASan/UBSan/asserts and memcheck",
     level_text=("every operation sequence up to a fixed length over a ~40-operation alphabet (exhaustive) plus thousands of long random "
                 "histories on 1-4 dimensional owning and memory-viewing arrays are executed against the real classes; after every step "
                 "the complete observable state is compared with a reference index-range map while ASan/UBSan and STIR's re-armed "
                 "asserts watch every access; thorough adds valgrind memcheck for reads of never-written storage"),
     level_note=("trusted: the 150-line reference map in harness/c11_arrays.cxx, clang-14 sanitizer runtimes, valgrind; arrays containing "
                 "empty sub-arrays and arithmetic with exactly one empty operand are outside the documented contract and not exercised"),
     assumptions=["values are small integers stored as float so arithmetic in the model is exact",
                  "arithmetic with exactly one empty operand is only checked where the documentation pins the result down"],
     )
