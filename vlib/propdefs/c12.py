from vlib.props import prop

prop("C12",
     harness="c12_coords",
     runs={
         "quick": [dict(flavour="asan", cases=1200), dict(flavour="rel", cases=8000)],
         # thorough: about 20 min at 6 jobs (measured on a heavily loaded machine).  The asan flavour is 20-50x slower per bin, so its sub-sample strides every
         # configuration above 30000 bins (rel: 250000)
         "thorough": [dict(flavour="asan", cases=600, timeout=3600, env={"C12_BIN_BUDGET": "30000"}),
                      dict(flavour="rel", cases=24000, timeout=5400)],
     },
     min_nontrivial={"quick": 3000, "thorough": 12000},
     min_obs={"quick": {"bins_roundtripped": 2000000, "roundtrip_exact": 500000, "roundtrip_neighbour": 200000, "roundtrip_view_wrap": 2000,
                        "lor_misses": 1000, "bins_geometry_checked": 1000000, "bins_geometry_cyl-noarc": 300000,
                        "bins_geometry_cyl-arc": 100000, "bins_geometry_blocks": 30000, "bins_geometry_generic": 10000,
                        "tantheta_vs_contributing_pairs": 300000, "phi_within_half_view_step": 100000, "arc_correction_rows": 10000,
                        "arc_correction_uniform_bins": 10000, "tof_bins_checked": 1000, "symmetry_relations_checked": 50000,
                        "cfg_tilt": 500, "cfg_view_mashing": 300, "cfg_axial_compression": 500, "cfg_tof_mashed": 100,
                        "cart_bins_checked": 1000000, "cart_bins_cyl-noarc": 500000, "cart_bins_blocks": 300000, "cart_bins_generic": 200000,
                        "cart_bins_oblique": 500000, "cart_points_vs_get_LOR": 1000000, "cart_find_bin_exact": 800000,
                        "cart_scanner_coordinate_inversions_cyl-noarc": 100000, "cart_scanner_coordinate_inversions_blocks": 30000,
                        "cart_scanner_coordinates_vs_detector_positions": 200000, "cart_cfg_tilt": 200, "cart_cfg_tof": 100},
              "thorough": {"bins_roundtripped": 1000000000, "bins_geometry_checked": 500000000, "cfg_predefined_scanner": 4000,
                           "arc_correction_rows": 100000, "tof_bins_checked": 5000, "cfg_strided": 2000,
                           "bins_geometry_blocks": 30000000, "bins_geometry_generic": 10000000, "roundtrip_view_wrap": 500000,
                           "lor_misses": 10000000, "cart_bins_checked": 100000000, "cart_find_bin_exact": 50000000,
                           "cart_scanner_coordinate_inversions_cyl-noarc": 1000000, "cart_scanner_coordinate_inversions_blocks": 300000}},
     rule=("case = one generated (scanner, sampling) configuration: even detector count 8..40 (thorough ..96/320), 1..5/8 rings, radius, DOI, "
           "ring spacing, intrinsic tilt, TOF; cylindrical (not arc-corrected / arc-corrected), blocks-on-cylindrical, or generic from a "
           "crystal map written by the harness (perturbed radii); span (odd, even, mixed GE), max ring difference, view mashing, TOF "
           "mashing, truncated tangential/segment range; thorough: a quarter of the cases (drawn per case) use a predefined Scanner type.  Per configuration ALL bins "
           "(strided above 60000 / 250000 bins; 30000 in the thorough asan sub-sample; and above 10^7 bins x contributing detector pairs per bin) go through (1) bin->get_LOR->get_bin (sinogram-coordinate and two-point LOR) and (2) the "
           "comparison of get_s/get_phi/get_m/get_tantheta with the float64 line through the physical detector positions; plus (3) "
           "antisymmetry/monotonicity/sampling/TOF relations and (4) ArcCorrection on all views of one sinogram (every 3rd row constant, "
           "others random); (5) for bins of the detector-based classes without axial compression and view mashing (the documented domain of get_det_pos_pair_for_bin): find_cartesian_coordinates_of_detection against the bin's reported line, get_LOR, the detector positions and find_bin_given_cartesian_coordinates_of_detection; per configuration every (detector, ring) with two partners through find_cartesian_coordinates_given_scanner_coordinates and its inverse.  non-trivial = configuration with >= 2 views and >= 3 tangential positions whose bins were round-tripped and "
           "geometry-checked; distinct = distinct configuration descriptor"),
     technique=("runtime monitoring: per-configuration sweep of the real coordinate functions against an independent float64 model of the "
                "detector positions and the round-trip rules of the statement, under ASan/UBSan/asserts and in the release build"),
     level_text=("for thousands of generated geometries (and the predefined scanner table in the thorough tier) every bin (strided on the "
                 "largest) is converted to its LOR and back with the exact acceptance rules of the statement, and its (s, phi, m, tan theta) "
                 "are compared, within a few float32 ulp of the radius / axial length, with the straight line through the physical "
                 "detector positions recomputed independently in float64 (psi = 2 pi det/N + tilt, z = centred ring index x spacing; "
                 "detector map for blocks/generic) and averaged over get_all_det_pos_pairs_for_bin for compressed bins; index "
                 "antisymmetry, strict monotonicity, uniform arc-corrected sampling, TOF distances and bin boundaries, and ArcCorrection "
                 "rows against a float64 overlap-interpolation reference (uniformity, integral over s) are checked per configuration; the two "
                 "points find_cartesian_coordinates_of_detection reports for a bin (z counted from the first ring, as documented) must give the "
                 "bin's own (s, phi, m, tan theta) and get_LOR line, be the model positions of its two detectors, and convert back to the bin "
                 "(one-step rule); find_scanner_coordinates_given_cartesian_coordinates must return the (detector, ring) pair its inverse was given"),
     level_note=("trusted: the 60-line geometric model and the acceptance rules in harness/c12_coords.cxx.  Restrictions that follow "
                 "documented limits of the library: blocks/generic only span=1, no view mashing, no TOF (ProjDataInfoGeneric); "
                 "arc-corrected TOF data are round-tripped for the central TOF bin only (get_bin: 'TODO NO TOF YET'); HiDAC skipped "
                 "(sampling does not correspond to physical rings); odd detector counts skipped.  A miss is also accepted when the "
                 "permitted one-step tangential neighbour lies outside a truncated tangential range; obliqueness of axially compressed "
                 "bins whose contributing ring differences are not symmetric about the segment average (incomplete edge bins, even "
                 "'GE' spans) is compared with the documented segment-average model instead of the mean over contributing pairs.  "
                 "The Cartesian-coordinate functions are only called where get_det_pos_pair_for_bin is documented to work (span 1, no view "
                 "mashing); the order of their two points is not checked (a line; counted in cart_points_in_*_order); "
                 "ProjDataInfoGenericNoArcCorr has no inverse functions.  Planted breaks caught in the quick tier (scratch worktree): m_offset sign and m_offset with the sampling of segment 0 "
                 "(*:axial-positions-not-centred-on-the-scanner, cyl-noarc:m-disagrees-with-detector-positions, roundtrip-*-reports-miss-"
                 "away-from-compressed-axial-edge); intrinsic tilt ignored in ProjDataInfoCylindricalNoArcCorr::get_bin "
                 "(cyl-noarc:roundtrip-sinogram-lor-more-than-one-step-or-other-segment-or-tof); ring origin num_rings/2 in the same "
                 "function (cyl-noarc:roundtrip-*-reports-miss-away-from-compressed-axial-edge); TOF bin boundaries shifted by half a bin "
                 "(*:tof-bin-of-time-near-bin-centre-is-another-bin, roundtrip-*-other-segment-or-tof); z_shift applied to one end only in "
                 "ProjDataInfoGeneric::get_LOR (blocks/generic:m-disagrees-with-detector-positions)"),
     assumptions=["for blocks/generic geometries the scanner's detector map (checked for centring; for generic against the crystal-map file "
                  "written by the harness) is the physical ground truth",
                  "equivalent descriptions of one line, (s, phi, theta) ~ (-s, phi+pi, -theta), are identified for the generic classes, which "
                  "normalise phi to [0,pi)",
                  "float32 coordinate results are accepted within 16 (cylindrical) / 96 (generic: atan2, sqrt, quadratic) ulp of the "
                  "length scale of the quantity; overlap_interpolate's documented epsilon rule is part of the arc-correction model"],
     )
