from vlib.props import prop

prop("C13",
     harness="c13_norm",
     runs={
         "quick": [dict(flavour="asan", cases=3000), dict(flavour="rel", cases=12000)],
         "thorough": [dict(flavour="asan", cases=15000), dict(flavour="rel", cases=100000),
                      dict(flavour="memcheck", cases=400)],
     },
     min_nontrivial={"quick": 6000, "thorough": 60000},
     min_obs={"quick": {"bins_checked_trivial": 10000, "bins_checked_projdata": 100000, "bins_checked_attenuation": 100000,
                        "bins_checked_components": 50000, "bins_checked_calibrated": 30000, "bins_checked_chained": 50000,
                        "efficiency_agreements": 100000, "apply_undo_roundtrips": 1000000, "symmetry_groupings_compared": 5000,
                        "alternating_symmetry_groupings_runs": 15000, "alternating_symmetry_groupings_same_basic_viewgram_under_both": 200000,
                        "cfg_complementary_minimal_pet_symmetry_groupings": 2500,
                        "projdata_overload_compared": 5000, "chains_len1": 100, "chains_len2": 100, "chains_len3": 100,
                        "attenuation_tight_bins": 300000, "attenuation_physical_bins": 150000,
                        "attenuation_physical_bins_through_cylinder": 100000,
                        "cfg_tof_data_nontof_factors": 100, "cfg_tof_factors": 50, "cfg_anisotropic_grid": 300,
                        "cfg_isotropic_grid": 300, "cfg_default_ray_tracing_projector": 30, "trivial_identity_checks": 100,
                        "trivial_identity_checks_components": 30, "objects_checked_again_after_a_second_set_up": 1500, "objects_checked_again_after_a_second_set_up_attenuation": 500,
                        "cfg_pet_symmetry_grouping": 3000},
              "thorough": {"bins_checked_projdata": 1000000, "bins_checked_attenuation": 1000000, "attenuation_tight_bins": 3000000,
                           "attenuation_physical_bins": 1500000, "chains_len1": 1000, "chains_len2": 1000, "chains_len3": 1000,
                           "symmetry_groupings_compared": 50000, "cfg_tof_data_nontof_factors": 1000,
                           "cfg_default_ray_tracing_projector": 300}},
     rule=("(clause added in round 4: for a random pair of the object's symmetry groupings - among them, in 40% of the cylindrical cases, "
           "the complementary minimal pair swap-segment-only / 180-degrees-only - the related viewgrams of every basic view/segment are "
           "processed under grouping A and immediately afterwards under grouping B by the SAME object; both complete results must equal "
           "the single-grouping result bit for bit.)  case = one generated (scanner, sampling, normalisation object, data) configuration: cylindrical (and for the classes "
           "that do not project: blocks-on-cylindrical) scanner with 8..32/48 detectors and 1..4/5 rings, span, ring-difference, view "
           "mashing, tangential truncation, arc-correction, TOF (mashed) or non-TOF data, all held in ProjDataInMemory; object = "
           "Trivial | FromProjData (random positive factors, non-TOF factors on TOF data, factors with more segments than the data) | "
           "FromAttenuationImage (random mu-map or centred uniform cylinder, isotropic/anisotropic grid, matrix-based ray-tracing "
           "projector with random symmetry flags/cache/tangential rays, or the class's default on-the-fly projector) | "
           "PETFromComponents (allocate + random efficiencies/geometric/block factors) | a table class behind "
           "BinNormalisationWithCalibration (BinNormalisation's default apply/undo) | Chained of 1-3 of these (both nestings, "
           "a chain of one is (a, Trivial) or (Trivial, a)).  Every bin of the data is checked.  non-trivial = the data have >= 2 views and the "
           "efficiencies are not all equal; distinct = distinct configuration descriptor"),
     technique=("runtime monitoring: the real normalisation classes are driven through every public route (related viewgrams under "
                "several symmetry groupings, whole-ProjData overloads) on generated in-memory data and compared bin by bin with the "
                "algebraic relations of the statement, an float64 re-evaluation of the projection-matrix row and an analytic phantom, "
                "under ASan/UBSan/asserts (and memcheck in the thorough tier)"),
     level_text=("for thousands of generated geometries and objects e := undo(ones) is measured for every bin and required to be "
                 "positive, bit-identical across repeated calls, across symmetry groupings of the related viewgrams and across the "
                 "whole-ProjData overloads, equal to get_bin_efficiency where implemented; undo(x) = x*e, apply(x) = x/e and "
                 "undo(apply(x)) = x within (2m+2) half-ulps of float32 (m members); is_trivial() implies bit-identical data; a chain "
                 "equals the product of its members; FromProjData equals the reciprocal factor of the same spatial bin (TOF index "
                 "ignored for non-TOF factors); attenuation factors equal exp of the float64 sum over the same projection-matrix row "
                 "times mu times voxel_x/10 within the computed float32 band, and lie between the exponentials of the analytic chords "
                 "of a centred cylinder of radius R -/+ half a voxel diagonal on isotropic and anisotropic grids"),
     level_note=("trusted: the comparison code in harness/c13_norm.cxx; the tight attenuation oracle trusts the projection-matrix "
                 "values (C03/C04 check those), the physical oracle does not; classes needing scanner files (ECAT7/ECAT8/GE HDF5, "
                 "SPECT) are not covered; validated on planted breaks (scratch worktree): undo(ProjData&) calling apply -> "
                 "<class>:undo-projdata-overload-differs-from-viewgrams; FromProjData::apply ignoring the TOF index of TOF factors -> "
                 "projdata:apply-is-not-division-by-efficiency; chain undo using the first member twice -> "
                 "chained:get_bin_efficiency-differs-from-undo-of-ones / chained:apply-is-not-division-by-efficiency; attenuation "
                 "rescale by voxel_y -> attenuation:factor-is-not-exp-of-line-integral(tight) and ...(physical); PETFromComponents "
                 "is_trivial ignoring zero bins -> components:reports-trivial-but-zeroes-bins-outside-the-symmetric-fan"),
     assumptions=["BinNormalisationFromAttenuationImage is only exercised on non-TOF data (set_up documents TOF as unsupported) and its "
                  "viewgrams are grouped by the projector's own symmetries (the forward projectors reject any other grouping)",
                  "BinNormalisationPETFromComponents is only exercised on non-TOF, span-1, unmashed, non-arc-corrected cylindrical data "
                  "(documented / enforced by ML_norm), geometric factors only with an even number of crystals per block, block "
                  "factors only with an even number (>=4) of transaxial blocks, factors exactly 1 or at least 10% away from 1 "
                  "(is_trivial() documents a 1e-4 tolerance); its bins outside the symmetric tangential fan carry efficiency 0 and "
                  "are exempt from the positivity clause (counted)",
                  "the physical attenuation phantom lives in an image with one extra plane at each end so that every tube of response "
                  "lies inside the object; the on-the-fly ray tracing projector (the class's default) is only used on grids with a "
                  "square index range (it addresses the image with x and y exchanged) whose voxels are at least as large as the "
                  "tangential sampling, even number of views, no view offset (its documented domain), physical oracle only",
                  "block-geometry scanners are generated without TOF (Scanner::check_consistency reads max_FOV_radius before it is "
                  "initialised for TOF block scanners - not this property's subject); arc-corrected data keep every line of response "
                  "inside the detector ring",
                  "at most one member with a calibration factor per chain (ChainedBinNormalisation rejects two); both members of a "
                  "ChainedBinNormalisation are always non-null (the class documents two member objects; its constructor "
                  "dereferences both, so a null member crashes - a robustness bug outside this property's statement)"],
     )
