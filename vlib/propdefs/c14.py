from vlib.props import prop

# counters of harness/c14_listmode.cxx (ctx.count names); values observed with seed 1: about twice the thresholds
_min_obs_quick = {
    # part H: LmToProjData against the exactly-once event counter
    "events_generated": 3000000, "events_in_frames": 2500000, "events_out_of_range": 500000,
    "events_with_time_equal_to_frame_start": 250000, "events_with_time_equal_to_frame_end": 200000,
    "delayed_events_counted": 300000,
    "bins_compared": 250000000, "batching_settings_compared": 100000, "runs_multi_pass": 50000, "runs_single_pass": 50000,
    "passes_rewound": 150000,
    "mode_all-events": 4000, "mode_single-frame": 4000, "mode_multi-frame": 4000, "mode_num_events_to_store": 4000,
    "cutoff_cases": 8000, "cut_offs_reached": 6000, "cut_offs_beyond_end_of_stream": 1500,
    "multi_frame_file_runs": 5000, "frame_partitions": 4000,
    "cfg_prompts_minus_delayeds": 9000, "cfg_prompts_only": 2000, "cfg_delayeds_only": 2000,
    "cfg_nontof": 8000, "cfg_tof": 2500, "cfg_tof_mashed": 1200,
    "cfg_axial_compression": 6000, "cfg_view_mashing": 3500, "cfg_tangential_truncation": 4500,
    "cfg_frame_without_time_mark": 250,
    # part G: list-mode objective function against the projection-data objective function of the histogram
    "lm_gradient_voxels_compared": 1500000, "lm_full_gradient_voxels_compared": 700000,
    "cfg_gradient_nontof": 2000, "cfg_gradient_tof": 1000, "cfg_gradient_additive": 2000, "cfg_gradient_no_additive": 1000,
    "cfg_gradient_record_cache": 2000, "cfg_gradient_no_cache": 1000, "cfg_gradient_subsets": 1000,
}
# thorough was run once (seed 1, fixed tree) with asan 5000 / rel 100000 cases: HELD, 57 min at 6 jobs on a loaded machine
# (asan 2287 s, rel 1156 s); the counts below are cut to fit about 25-30 min at 6 jobs
_THOROUGH_FACTOR = 2

prop("C14",
     harness="c14_listmode",
     runs={
         "quick": [dict(flavour="asan", cases=1500), dict(flavour="rel", cases=30000)],
         "thorough": [dict(flavour="asan", cases=2000), dict(flavour="rel", cases=60000)],
     },
     min_nontrivial={"quick": 60000, "thorough": 150000},
     min_obs={"quick": _min_obs_quick,
              "thorough": {k: _THOROUGH_FACTOR * v for k, v in _min_obs_quick.items()}},
     rule=("case = one generated (scanner, list-mode stream, template, selection) world.  Scanner: cylindrical, 8..32/48 detectors per "
           "ring, 1..5/6 rings (part G: 8..20/28, 1..3/4), optional TOF (3/5/9/15 timing bins) and intrinsic tilt.  Stream: a harness-side CListModeData "
           "subclass (events derived from CListEventCylindricalScannerWithDiscreteDetectors, so get_bin goes through the real "
           "detector-pair map) replaying 60..400/900 prompt and delayed coincidences with unique ids and random detector pairs, "
           "rings and unmashed TOF index (about a fifth outside the template: ring difference, tangential range, TOF range), "
           "interleaved with 0..24 millisecond time marks (events before the first mark, repeated marks, marks exactly on / one ms "
           "beside frame boundaries, and - keyed separately - frames that contain no time mark).  4 of 5 cases (part H) run "
           "LmToProjData with a template of random span (odd/even/mixed), maximum ring difference, view mashing, TOF mashing, "
           "truncated tangential and segment range, the list-mode object reporting either the template's or another sampling of the "
           "scanner, store prompts-delayeds / prompts only / delayeds only, in one of four modes by case index: all events; every "
           "single frame of a 1..2-frame partition; a 2..5-frame partition (optionally with a frame dropped) through per-frame "
           "Interfile output, its last frame in memory and the whole interval as one frame; num_events_to_store inside the stream / "
           "equal to the total / beyond the end.  Every in-memory selection is repeated for all (or up to ~2(S+T)+6 sampled) "
           "pairs (num_segments_in_memory, num_TOF_bins_in_memory) incl. -1 and values above the number available, alternately "
           "on a fresh list-mode object and on a shared one after reset().  1 of 5 cases (part G) builds the list-mode objective "
           "function (ray-tracing matrix with random symmetry switches / cache / 1-2 tangential rays, optional additive term, "
           "projection-data or trivial normalisation, 1..views subsets, all events / one frame of 1..3 / num_events_to_use, "
           "events read directly or through record-cache files of 3..40 or 100000 records, optional max segment) and the "
           "projection-data objective function on the histogram that LmToProjData makes of the same events.  sub-evaluation = one "
           "(selection, batching setting) run; non-trivial = at least 20 events were counted into at least 2 different bins; "
           "distinct = distinct (case descriptor, selection, batching setting)"),
     technique=("runtime monitoring: the real LmToProjData and list-mode objective function are driven by a synthetic in-memory "
                "list-mode object (STIR's documented extension point) and compared bin by bin with an independent exactly-once "
                "event counter, and voxel by voxel with the projection-data objective function and a float64 event sum, under "
                "ASan/UBSan/asserts and at -O2"),
     level_text=("for tens of thousands of generated streams x templates x selections every bin of LmToProjData's output (pre-filled "
                 "with a poison value, so unwritten bins are seen) must equal the count obtained by walking the event list once: "
                 "time of an event = last time mark before it (0 before the first), in frame iff start <= time < end, bin = the "
                 "template's get_bin_for_det_pos_pair, in range of the template, +1 per prompt, -1 per delayed when both are stored, "
                 "+1 per delayed when only delayeds are stored, stop when the net number stored reaches num_events_to_store; the "
                 "output must be bit-identical for every num_segments_in_memory x num_TOF_bins_in_memory setting (the rewinds are "
                 "counted at the ListModeData boundary; a rewind to a position that was never saved is an error); per-frame files "
                 "of a partition must have the template's geometry, equal the per-frame count and add up bin for bin to the "
                 "histogram of the whole interval; with set_output_projdata_sptr the last frame is what is returned (as documented). "
                 "Part G: sub-gradient+sensitivity and (non-TOF) the full sub-gradient of the list-mode objective function must "
                 "equal those of the projection-data objective function on the histogram within 2x the computed float32 band, and "
                 "their sums over subsets must equal the float64 sum over events of A_e^T(1/(A_e lambda + c_e)) on the rows of an "
                 "identically configured matrix.  Detection validated on planted mutations: rewind to the first frame's saved "
                 "position, frame end inclusive (LmToProjData and objective function), delayeds subtracted in delayeds-only mode, "
                 "num_events_to_store counting only events whose segment is in memory, last tangential position dropped"),
     level_note=("trusted: the event counter and comparison code in harness/c14_listmode.cxx; the detector-pair map of the template "
                 "geometry (C01 checks it) and, for part G, the projection-matrix rows (C03) and the projection-data objective "
                 "function (C05).  Not exercised: real file formats (SAFIR, ECAT8, ... record decoding needs scanner files), "
                 "pre-/post-normalisation inside LmToProjData, the interactive mode, LmToProjDataBootstrap, TOF data mashed to a "
                 "single TOF position through Interfile files (header cannot be read back: an Interfile matter), "
                 "num_events_to_use of the objective function when the events span several record-cache batches (the class counts "
                 "per batch; neither the statement nor the documentation defines it), use_tofsens, the objective function's value "
                 "and Hessian"),
     assumptions=["time marks are non-decreasing and frame ends are >= 20 ms (process_data ignores time marks for frames ending before "
                  "0.01 s, which is how it implements 'no frame definitions')",
                  "templates are non-arc-corrected (is_valid_template of discrete-detector events rejects anything else) and the "
                  "list-mode object and the template share the scanner (process_data rejects anything else)",
                  "part G keeps count/estimate quotients below 500 (the projection-data class documents a cap of 1e4 that the "
                  "list-mode class applies differently), uses at least one in-range prompt and never an exactly full last cache batch "
                  "(LM_distributable_computation asserts a non-empty batch)",
                  "the full-gradient comparison (data term minus subset sensitivity) is made for non-TOF data only: the subset "
                  "sensitivities of TOF data are C05's subject (see its known finding on their subset assignment)"],
     )
