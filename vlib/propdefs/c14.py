from vlib.props import prop

prop("C14",
     harness="c14_listmode",
     runs={
         "quick": [dict(flavour="asan", cases=1500), dict(flavour="rel", cases=30000)],
         "thorough": [dict(flavour="asan", cases=1000), dict(flavour="rel", cases=10000)],
     },
     min_nontrivial={"quick": 2, "thorough": 2},
     min_obs={"quick": {}, "thorough": {}},
     rule="TBD",
     technique="TBD",
     level_text="TBD",
     level_note="TBD",
     assumptions=[],
     )
