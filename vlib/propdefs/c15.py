from vlib.props import prop

prop("C15",
     harness="c15_rebin",
     runs={
         "quick": [dict(flavour="asan", cases=700), dict(flavour="rel", cases=12000)],
         "thorough": [dict(flavour="asan", cases=2500), dict(flavour="rel", cases=40000)],
     },
     min_nontrivial={"quick": 8000, "thorough": 400000},
     min_obs={"quick": {"ssrb_configs": 50000, "ssrb_bins_compared": 10000000, "ssrb_conservation_checks": 15000,
                        "ssrb_trimmed_events": 100000, "ssrb_cfg_segments_combined": 10000, "ssrb_cfg_views_combined": 10000,
                        "ssrb_cfg_tof_combined": 3000, "ssrb_cfg_tang_trimmed": 10000, "ssrb_cfg_max_segment_limited": 3000,
                        "zoom_cases_preserve_sum": 1000, "zoom_cases_preserve_values": 1000, "zoom_cases_preserve_projections": 1000,
                        "zoom_sum_checks": 2000, "zoom_com_checks": 1000, "zoom_uniform_checks": 150, "zoom_composition_checks": 10000,
                        "zoom_comp_xy_overload": 1000, "zoom_comp_xy_overload_min_z_nonzero": 100, "zoom_cases_pure_shift_in_z": 120, "zoom_cases_pure_shift_in_xy_only": 70,
                        "zoom_comp_two_step_3d": 1000, "zoom_comp_two_step_xy_overload": 100,
                        "zoom_global_factor_checks": 1500, "zoom_geometry_checks": 4000},
              "thorough": {"ssrb_configs": 450000, "ssrb_conservation_checks": 140000, "ssrb_cfg_tof_combined": 80000,
                           "zoom_sum_checks": 5000, "zoom_com_checks": 3500, "zoom_uniform_checks": 700,
                           "zoom_composition_checks": 23000, "zoom_comp_xy_overload_min_z_nonzero": 400}},
     rule=("even case numbers = one SSRB case: generated cylindrical non-arc-corrected scanner (8..32/64 detectors, 1..7/24 rings, "
           "optional TOF with odd mashing), input sampling span 1 (70%) or 3/5 with complete segments, optional view mashing / "
           "tangential truncation / reduced segment range; 10..150/400 random detector-pair events with counts 1..5 histogrammed by "
           "the harness with the input geometry's own detector-pair map; up to 24/80 legal configurations (odd "
           "num_segments_to_combine <= processed segments, every divisor of the number of views, tangential trims {0,1,2,random,-1,-2}, "
           "every max_in_segment_num_to_process, every odd num_tof_bins_to_combine) drawn from the complete product (all of them when "
           "fewer), half of them without any trimming argument; per configuration SSRB(ProjDataInfo...) + SSRB(out,in,false) and "
           "every output bin is compared exactly with the histogram of the same events under the OUTPUT geometry's detector-pair map; "
           "totals compared when no range is trimmed.  odd case numbers = one zoom case: random image (1..6/9 x 3..12/18 x 3..12/18 "
           "voxels, standard and shifted index ranges, voxel sizes 0.8..6 mm, origins +-40 mm; positive / signed / constant block / "
           "single voxel inside a margin), zooms log-uniform in [0.3,3] plus exact 1, 0.5, 2, offsets up to 2.5 voxels, covering and "
           "truncating output sizes, one of the three ZoomOptions; 20% of the inputs have a z index range that does not start at 0 "
           "(also for the xy-only overloads).  non-trivial = SSRB: >= 10 counts in >= 2 input bins and >= 1 "
           "configuration evaluated; zoom: non-constant image with >= 8 voxels.  distinct = distinct case descriptor; sub-evaluations "
           "= SSRB configurations"),
     technique=("runtime monitoring: differential oracle for rebinning (detector-pair events histogrammed directly at the coarse sampling vs "
                "SSRB of the fine histogram, exact integers) and metamorphic/conservation oracles for zoom_image with computed float32 "
                "bands, under ASan/UBSan/asserts and the release flags"),
     level_text=("tens of thousands (quick) / millions (thorough) of SSRB configurations over generated scanners are compared bin for bin "
                 "and exactly with the output geometry's own detector-pair histogram, with total conservation whenever nothing is "
                 "trimmed; thousands of zoom cases check the documented result grid, sum conservation and centre of mass (own and "
                 "find_centre_of_gravity_in_mm) when the grid covers the object, uniformity under preserve_values, that the options "
                 "differ by a global factor only, and equality of one-call / in-place / 2-argument / xy-only / two-step forms; bands "
                 "are computed from the number of interpolation terms, coordinate rounding and the library's own 1e-5 sliver cut"),
     level_note=("trusted: the comparison code in harness/c15_rebin.cxx and the detector-pair map checked by C01; inverse_SSRB, "
                 "extend_projdata/interpolate_projdata, arc-corrected input, even TOF mashing, inputs whose segments have unequal axial "
                 "compression and the SSRB template mode are not exercised; whether SSRB(ProjDataInfo) rejects illegal arguments "
                 "(num_segments_to_combine larger than the processed segment range) and which grid the xy-only zoom overload "
                 "returns through its 'nothing to do' shortcut (zoom 1, offsets 0, new_size == x-size) are outside the statement "
                 "and not checked (see the C15 triage report for the two defects seen there); the absolute factor of preserve_projections is only pinned "
                 "through the agreement of the 2-D and 3-D code paths"),
     assumptions=["SSRB input segments all have the same axial compression (SSRB.h: cannot handle unequal 'num_segments_to_combine')",
                  "TOF mashing factors and num_tof_bins_to_combine are odd (set_tof_mash_factor: 'TODO cope with even numbers')",
                  "overlap_interpolate drops slivers with |dx| <= 1e-5 of an input bin by design; where an output bin edge lies that "
                  "close to an input bin edge (geometric screen, blind to the values) the bands include 1e-5 x magnitude",
                  "centre-of-mass clause is checked for non-negative images with positive total only"],
     )
