from vlib.props import prop

prop("C16",
     harness="c16_scatter",
     runs={
         "quick": [dict(flavour="asan", cases=60), dict(flavour="rel", cases=600)],
         "thorough": [dict(flavour="asan", cases=600), dict(flavour="rel", cases=12000)],
     },
     min_nontrivial={"quick": 100, "thorough": 2000},
     min_obs={"quick": {}, "thorough": {}},
     rule="(draft)",
     technique="runtime monitoring",
     level_text="(draft)",
     level_note="(draft)",
     assumptions=[],
     )
