from vlib.props import prop

# counters are the ctx.count names of harness/c16_scatter.cxx; minima are about 35-50% of what one quick run observes
_min_obs_quick = {
    # "pairs" cases (1/3 of the cases)
    "detector_pairs_checked": 250000, "symmetry_checks": 250000, "symmetry_checks_per_scatter_point": 10000000,
    "cache_comparisons": 250000, "linearity_checks": 250000, "zero_activity_checks": 250000,
    "cache_reads_seen": 15000000, "cache_writes_seen": 2000000,     # STIR's SCAT_CACHE call-outs: the cached path was really taken
    "cfg_cache_on": 1000, "cfg_cache_off": 300,
    "cfg_cylindrical": 800, "cfg_blocks_on_cylindrical": 200, "cfg_downsampled_scanner": 200,
    # "history" cases (2/3 of the cases)
    "histories": 3500, "history_steps": 30000, "history_checkpoints": 20000,
    # (16 step kinds since the down-sampling extension: each of the older kinds is drawn 3/4 as often as before)
    "fresh_object_comparisons": 40000, "fresh_random_order_comparisons": 20000, "bins_compared_with_fresh_object": 4000000,
    "steps_new_activity_image": 4000, "steps_new_attenuation_image": 2000, "steps_new_scatter_point_image": 2000,
    "steps_new_threshold_and_scatter_point_image_again": 2000, "steps_new_template": 4000, "steps_new_energy_window": 4000,
    "steps_cache_switch": 2000, "steps_same_value_again": 2000, "steps_rerun_without_change": 2000,
    # the state in which the defect repaired by 'fix: ScatterSimulation::set_up must recompute the 511 keV detection efficiency' shows
    "states:energy-window-changed-after-process_data-with-same-template": 4000,
    "process_data_again_without_set_up": 400, "set_up_twice_in_a_row": 2500,
    "setter:set_exam_info_sptr": 10000, "setter:set_cache_enabled": 10000, "setter:downsample_scanner": 8000,
    # extension: scatter-point image derived by the library, images zoomed to the scanner, scanner down-sampled again
    "steps_sp_by_downsample_density_image_for_scatter_points": 1300,
    "steps_sp_by_downsample_density_image_for_scatter_points_automatic_zoom": 300,
    "steps_sp_by_set_image_downsample_factors_and_set_up": 900, "steps_sp_by_default_factors_and_set_up": 350,
    "steps_new_attenuation_image_with_downsample_factors_still_in_force": 180,
    "steps_downsample_images_to_scanner_size": 1300, "steps_downsample_images_to_scanner_size_then_sp_derived": 700,
    "steps_downsample_scanner_on_current_template": 600,
    # the template grids share the z-middle of the images: the scatter-point image given before survives the call
    "histories_with_images_on_the_z_middle_of_the_template_grid": 500,
    "steps_downsample_images_to_scanner_size_scatter_point_image_kept": 80,
    "checkpoints_sp_derived_by_downsample_density_image_for_scatter_points": 4000,
    "checkpoints_sp_derived_in_set_up_from_set_image_downsample_factors": 2000,
    "checkpoints_sp_derived_in_set_up_with_default_factors": 1000, "checkpoints_sp_derived_with_automatic_zoom": 2000,
    "checkpoints_with_image_from_downsample_images_to_scanner_size": 3000, "checkpoints_with_twice_downsampled_scanner": 1500,
    "set_up_derives_scatter_point_image": 8000, "fresh_objects_with_downsample_images_prelude": 6000,
    "setter:downsample_density_image_for_scatter_points": 12000, "setter:set_image_downsample_factors": 5000,
    "setter:downsample_images_to_scanner_size": 7000, "setter:downsample_scanner_of_downsampled_or_current_template": 4000,
    # the state in which the defect repaired by 'fix: ...downsample_density_image_for_scatter_points must keep the requested zoom
    # factors and sizes' shows: set_up derives the scatter-point image on an object that derived one before, factors not given since
    "states:sp-derived-in-set_up-after-an-earlier-derivation-without-new-factors": 700,
}

prop("C16",
     harness="c16_scatter",
     runs={
         "quick": [dict(flavour="asan", cases=300), dict(flavour="rel", cases=6000)],
         # thorough cases are 3-4x as expensive as quick ones (larger scanners and images); sized for about 30 min on 6 shards
         # (measured with the down-sampling steps on a loaded machine: asan 400 cases 901 s, rel 12000 cases 1240 s)
         "thorough": [dict(flavour="asan", cases=300), dict(flavour="rel", cases=12000)],
     },
     min_nontrivial={"quick": 4500, "thorough": 9000},
     min_obs={"quick": _min_obs_quick,
              "thorough": {k: 2 * v for k, v in _min_obs_quick.items()}},
     rule=("case = (idx % 3 == 0) one 'pairs' configuration or (otherwise) one setter history, both on a generated world: "
           "cylindrical or BlocksOnCylindrical scanner with 8..18 (thorough: ..28) detectors per ring and 2..3 (..4) rings, optionally "
           "obtained from a larger one through downsample_scanner(); span-1 non-arc-corrected template with random maximum ring "
           "difference and tangential range (cylindrical, 30%: all detector pairs; blocks: at most ndet/2+1 positions so that no bin "
           "joins two crystals of one block); energy resolution 8..35% at 511 keV or another reference "
           "energy, window [300..500, 520..750] keV; activity / attenuation / scatter-point images on independent grids of 2..4 (..5) planes "
           "x 3..6 (..9) voxels with random content and zeros (the scatter-point image is the attenuation image in 35%); attenuation "
           "threshold from {0, .004, .01, .02, .04, .07, .1}; cache on (75%) or off.  pairs: every bin of the template -> both "
           "detector orders through actual_scatter_estimate and through simulate_for_one_scatter_point per scatter point, stored "
           "process_data value == per-pair function, values finite and >= 0, a fresh object with the other cache setting gives "
           "bit-identical output, est(a*x+b*z) against a*est(x)+b*est(z) (b negative in 30%) within the computed float32 band, "
           "est(0) == 0.  history: one object configured in random setter order (scatter-point image given, or derived from the "
           "attenuation image by downsample_density_image_for_scatter_points(zoom_xy, zoom_z, size_xy, size_z) 25%, or inside set_up "
           "after set_image_downsample_factors 15% / with the default automatic factors 10%), then 4..20 (..24) steps out of {new activity image, "
           "new attenuation image (+ scatter-point image), new scatter-point image, new threshold followed by the scatter-point image "
           "again, new template, new energy window through set_exam_info / set_exam_info_sptr, cache switch through set_use_cache / "
           "set_cache_enabled, a setter called again with its current value, nothing, scatter-point image derived by "
           "downsample_density_image_for_scatter_points (zoom_xy 0.3..1.3 or 1 or automatic, zoom_z exact for the number of planes "
           "asked for / automatic / free within the 0.1 the library accepts, sizes -1 or given), set_image_downsample_factors + the "
           "same or a new attenuation image (set_up derives; a later attenuation image keeps the factors in 60%), the automatic "
           "factors given back through the direct call + attenuation image (set_up derives), downsample_images_to_scanner_size() "
           "followed by a derived or a new scatter-point image on the new z-middle - in 30% of the histories every template has the "
           "ring spacing that puts the z-middle of its image grid on that of the images, and the scatter-point image given before "
           "is then kept in 70% -, downsample_scanner(rings, dets) - 30% through "
           "set_num_downsample_scanner_rings/dets - on the current cylindrical template (at most two levels)}; a derivation with an "
           "automatic zoom is repeated after every template change; at random check-points and at the end: "
           "set_up (15%: twice; after 'nothing': sometimes none) + process_data, output compared bit-wise with a fresh object "
           "configured with the final values in canonical setter order (images made by downsample_images_to_scanner_size through a "
           "prelude: template of that moment, source images, that call) and with a second fresh object configured in a random order; a "
           "call the history object rejects must be rejected by a fresh object too.  "
           "Threshold and random-placement flag always precede the scatter-point image, the attenuation image precedes it too (it "
           "discards it).  non-trivial = the output of the (last) configuration has a positive bin; distinct = distinct case descriptor"),
     technique=("runtime monitoring: a harness subclass of SingleScatterSimulation exposes the per-detector-pair functions; inverse / "
                "algebraic relations (A<->B exchange, linearity, zero) and STIR-against-STIR replay oracles (cache on vs off, object "
                "with a setter history vs freshly configured objects) on generated scanners and images, under ASan/UBSan/asserts and "
                "in the release build; STIR's SCAT_CACHE call-outs are counted to prove that the cached path ran"),
     level_text=("thousands of generated scanner x template x image x energy configurations: for every detector pair of the (down-"
                 "sampled) template the estimate is computed in both detector orders, summed and per scatter point, and must agree "
                 "within 8(n+2)2^-23 of the (non-negative) estimate; the stored sinogram equals the per-pair function, is finite and "
                 ">= 0; cache enabled == cache disabled bit for bit; linear in the activity image within the computed band; exactly 0 "
                 "for zero activity.  Thousands of random setter / set_up / process_data histories (about 12 steps, 6 check-points "
                 "each) are compared bit for bit with two freshly configured objects (canonical and random setter order).  Counters "
                 "prove that every kind of step, both cache settings, all three scanner kinds, re-runs without set_up, repeated "
                 "set_up, the 'energy window changed after a process_data' state and the 'set_up derives the scatter-point image again "
                 "with the factors in force' state occurred; every way of obtaining the scatter-point image (given / direct "
                 "down-sampling call / inside set_up from given or default factors), downsample_images_to_scanner_size and a second "
                 "downsample_scanner are counted per step and per check-point.  Detection validated on planted "
                 "mutations: set_activity_image_sptr without remove_cache_for_integrals_over_activity and "
                 "set_template_proj_data_info without the two remove_cache calls (history:output-differs-from-fresh-object), "
                 "attenuation cache indexed [det][point] (crash keys, cache:on-differs-from-off, history:...), incidence cosine of "
                 "detector A used for both detectors and the energy-dependent attenuation exponent applied to one leg only "
                 "(symmetry:pair-estimate-... and symmetry:scatter-point-term-changes-when-detectors-are-exchanged)"),
     level_note=("trusted: determinism of the float32 evaluation (bit-wise comparisons are between two executions of the same code "
                 "on the same values), the float32 band of the symmetry and linearity clauses.  An error common to both detector "
                 "orders / to the cached and uncached path / to the history and the fresh object (a wrong physical formula) is "
                 "invisible.  set_attenuation_threshold and set_randomly_place_scatter_points are not among the changes the statement "
                 "lists; they are always called before the scatter-point image is given (afterwards the library ignores them until that "
                 "image is set again), and randomly placed scatter points (time-seeded) are never used.  The scatter-point image is "
                 "given or derived before/inside the first set_up after a change of the attenuation image (downsample_scanner_bool, "
                 "documented as 'set_up twice not supported', is never switched on).  downsample_images_to_scanner_size is used "
                 "one level deep (both images are replaced before it is called again) and followed by a scatter-point image "
                 "on the new z-middle unless that did not move; images zoomed to the template grid can extend beyond 0.78 R (only the history clause uses "
                 "them).  BlocksOnCylindrical templates are never down-sampled.  Multi-threaded evaluation is C18's subject"),
     assumptions=["the image extent stays inside 0.78 of the smallest ring radius and all images of a case share (nz-1)*vz, as "
                  "ScatterSimulation::set_up demands (issue #495 check)",
                  "scanners have >= 2 rings (set_up asserts a non-degenerate axial extent)"],
     )
