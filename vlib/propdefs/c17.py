from vlib.props import prop

# Stages (flavour x mode).  "mutate" case i is generated from (seed, "C17", i) only, so the rel stage re-runs exactly the inputs of
# the asan stage: asan judges memory safety / UB / asserts / allocation, rel judges what a user of the release build sees
# (crash instead of rejection, acceptance of short data without asserts in the way, non-termination within a generous CPU budget).
prop("C17",
     harness="c17_parsing",
     runs={
         "quick": [dict(flavour="asan", mode="roundtrip", cases=57 * 5),
                   dict(flavour="asan", mode="keywords", cases=3000),
                   dict(flavour="asan", mode="mutate", cases=14000),
                   dict(flavour="rel", mode="mutate", cases=14000),
                   dict(flavour="rel", mode="keywords", cases=1000),
                   # every line truncation of the 12 corpus seeds through every entry point (1064 points; the rest are no-ops)
                   dict(flavour="asan", mode="truncate", cases=1100),
                   dict(flavour="rel", mode="truncate", cases=1100),
                   # deterministic replay of the committed corpus of the coverage-guided campaigns (fuzz/c17_corpus) through the judge
                   dict(flavour="asan", mode="corpus", pre="corpus_dir", cases=1000000),
                   dict(flavour="rel", mode="corpus", pre="corpus_dir", cases=1000000)],
         "thorough": [dict(flavour="asan", mode="roundtrip", cases=57 * 20),
                      dict(flavour="rel", mode="roundtrip", cases=57 * 20),
                      dict(flavour="asan", mode="keywords", cases=15000),
                      dict(flavour="rel", mode="keywords", cases=15000),
                      dict(flavour="asan", mode="mutate", cases=50000),
                      dict(flavour="rel", mode="mutate", cases=50000),
                      dict(flavour="asan", mode="truncate", cases=1100),
                      # every byte truncation (~35000 points, depends on the length of the scratch path in the multi-header) in
                      # the release build, every 5th byte (phase = seed mod 5) under the sanitizers
                      dict(flavour="rel", mode="truncate", cases=40000, env={"VERIF_C17_TRUNC": "byte"}),
                      dict(flavour="asan", mode="truncate", cases=8200, env={"VERIF_C17_TRUNC": "byte", "VERIF_C17_TRUNC_STRIDE": "5"}),
                      # coverage-guided stage: libFuzzer (generator only) from the committed corpus, then every new corpus input and
                      # every crash/oom/timeout artifact is judged by the isolated-child oracle in both builds
                      dict(flavour="asan", mode="corpus", pre="libfuzzer", cases=1000000, fuzz_runs=400000, fuzz_jobs=12,
                           fuzz_max_seconds=1500),
                      dict(flavour="rel", mode="corpus", pre="reuse_fuzz", cases=1000000)],
     },
     min_nontrivial={"quick": 14000, "thorough": 55000},
     min_obs={"quick": {"mutated_inputs": 28000, "inputs_accepted_and_consistent": 12000, "inputs_rejected": 9000,
                        "data_length_checks": 8000, "mutation_short-data": 700, "mutation_value": 6000, "mutation_index": 2500,
                        "mutation_trunc-line": 1300, "mutation_trunc-byte": 1300, "mutation_delete-line": 2600,
                        "mutation_dup-line": 1400, "mutation_splice": 4000, "mutation_bytes": 1300,
                        "inputs_image": 4500, "inputs_dynimage": 1700, "inputs_pdfs": 6000, "inputs_spect": 1700,
                        "inputs_siemens": 1700, "inputs_multi": 1000, "inputs_kp": 2500, "inputs_par": 1300,
                        "equivalent_respellings_compared": 1600,
                        "registered_classes_enumerated": 57, "registered_classes_round_tripped": 34,
                        "roundtrip_fixed_points_checked": 140, "roundtrip_lines_compared": 1500,
                        "keyword_lines_respelled_and_matched": 12000, "vectorised_lines_stored_at_index": 4500,
                        "alias_lines_resolved": 800, "bad_index_lines": 550, "normaliser_strings_compared": 20000,
                        "equivalent_headers_same_result": 1400, "header_aliases_resolved": 500,
                        "header_indexed_lines_reordered": 6000, "keyparser_own_text_reparsed": 1000,
                        "line_truncations_run": 1900,
                        # texts ending with the continuation character and no end-of-line (KeyParser read_line looped forever)
                        "mutations_continuation_at_eof": 500,
                        # image headers with 'image scaling factor[f]' given per plane for the first (and some later) data sets
                        "equivalent_headers_scaling_factor_per_plane": 120,
                        # committed corpus of the coverage-guided campaigns, judged in both builds
                        "fuzz_inputs_judged": 2000, "fuzz_committed_corpus_files": 1000,
                        # DOS line ends / continued lines as documented-equivalent layouts
                        "roundtrip_dos_line_end_texts_parsed": 140, "roundtrip_dos_line_end_texts_with_continued_lines": 15,
                        "keyword_texts_with_continued_lines": 200, "keyword_texts_with_dos_line_ends": 300,
                        "keyword_texts_with_continued_lines_and_dos_line_ends": 40},
              "thorough": {"mutated_inputs": 100000, "inputs_accepted_and_consistent": 45000, "data_length_checks": 30000,
                           "registered_classes_enumerated": 114, "roundtrip_fixed_points_checked": 1100,
                           "keyword_lines_respelled_and_matched": 100000, "vectorised_lines_stored_at_index": 40000,
                           "alias_lines_resolved": 7000, "bad_index_lines": 5000, "equivalent_headers_same_result": 11000,
                           "line_truncations_run": 1000, "byte_truncations_run": 36000,
                           "fuzz_libfuzzer_executions": 100000, "fuzz_inputs_judged": 50, "fuzz_edge_coverage_reached": 20000}},
     exhaustive={"quick": "truncation after every line of each of the 12 corpus seeds (Interfile image/dynamic image/PET, SPECT and Siemens "
                          "projection data headers, multi-header, KeyParser text) through every entry point of its family, in both builds",
                 "thorough": "as quick, plus truncation after every byte of the same seeds in the release build (every 5th byte under the sanitizers)"},
     rule=("five kinds of case.  corpus: case i = i-th file (sorted by name) of a directory of inputs produced by libFuzzer campaigns on "
           "the same entry points (first line '<seed name> <entry variant>', then the text; the committed fuzz/c17_corpus in the quick "
           "tier, everything a fresh campaign produced - corpus additions and crash/oom/timeout artifacts - in the thorough tier), judged "
           "like a mutated input.  roundtrip: case i = registered class (i mod 57) of the 22 registries, variant i div 57: the object "
           "parsed from nothing but its start keyword (variant 0) or from its own text with ~1/3 of the numeric values changed "
           "and keywords respelled (variants >= 1) prints parameter_info(); that text is parsed again and must print the same "
           "text (numeric tokens may differ by 1e-5 relative); classes whose default values are rejected or that need external "
           "data are counted as skipped.  keywords: 50% a generated text for a KeyParser with a key of every public kind "
           "(keywords respelled with case changes and runs of space/tab/_/!, aliases, vectorised keys at random in-range "
           "indices, optionally one line whose index cannot be honoured) compared with a reference model of the documented "
           "semantics; 10% standardise_interfile_keyword against a reference normaliser written from the documentation; 40% an "
           "Interfile header / multi-header that is equivalent to a seed by the documented rules (aliases, respelling, "
           "vectorised lines of one keyword in another order) must give the same object as the seed.  truncate: case i = i-th element of the enumeration "
           "(seed, entry point, cut after k lines | k bytes) over the 12 corpus seeds, judged like a mutated input.  mutate: one seed "
           "(Interfile image float/short, dynamic image, 4 PET projection-data headers incl. TOF and arc-corrected, 2 SPECT, 1 "
           "Siemens sinogram header, multi-header, KeyParser text, default parameter text of a random registered class; all "
           "but the Siemens/SPECT-non-circular/KeyParser texts written by STIR itself) with 1-3 grammar-aware mutations (value "
           "replacement from a pool of boundary values, index change/add/drop, line deletion/duplication/swap, truncation at a "
           "line or byte, byte edits, spliced lines that interact with existing keys, continuation/environment syntax, "
           "reference to a truncated copy of the data file) through one of 2-3 entry points (read_interfile_image file/stream, "
           "read_from_file<DiscretisedDensity|DynamicDiscretisedDensity>, read_interfile_dynamic_image, "
           "ProjData::read_from_file, read_interfile_PDFS, MultipleDataSetHeader::parse, MultipleProjData::read_from_file, "
           "KeyParser::parse, read_registered_object) in a forked child.  Outcome must be: exception / false / null, or an "
           "object that passes the consistency checks (regular non-empty index ranges, vectors sized as announced, and - after "
           "reading all data - data file length >= offset + number of elements x bytes per element); never a sanitizer "
           "report, failed assert or signal, never a single allocation > 1 GiB (operator new shim), in rel never more than "
           "120 s CPU.  non-trivial = the parse of the generated input was executed to a verdict; distinct = distinct "
           "descriptor (input hash)"),
     technique=("runtime monitoring + mutation-based and coverage-guided fuzzing under sanitizers (libFuzzer on the ASan/UBSan build as "
                "input generator, committed corpus replayed in the quick tier, fresh campaign in the thorough tier; every input judged "
                "by the same isolated-child oracle): grammar-aware, seeded, count-bounded mutation of "
                "headers/parameter texts the library wrote itself, every parse isolated in a forked child under ASan/UBSan/asserts "
                "with an allocation-size monitor, replayed in the release build; inverse relation print->parse->print over all "
                "registries; executable reference model for keyword normalisation, aliases and vectorised indices"),
     level_text=("every class of the 22 parsing registries (57 classes) is enumerated and, where it can be constructed without "
                 "external data (37 classes), its print -> parse -> print fixed point is checked for the default object and for objects with "
                 "perturbed values; ~14000 (quick) / 50000 (thorough) mutated headers and parameter texts per build are pushed "
                 "through the public readers, each in its own process, with ASan/UBSan/asserts, a > 1 GiB single-allocation "
                 "monitor and data-length consistency checks on whatever is accepted (all bins of accepted projection data are "
                 "read); documented-equivalent respellings, aliases and reordered vectorised keys must reproduce the seed's "
                 "object; a KeyParser with every kind of key is compared line by line with a reference model; the ~1000 inputs that "
                 "coverage-guided libFuzzer campaigns found (fuzz/c17_corpus, ~40000 edges of the library) are replayed through the same "
                 "judge in both builds (quick), and the thorough tier runs a fresh 400000-execution campaign and judges everything new"),
     level_note=("trusted: the ~60-line reference normaliser/line splitter and the reference model of the test parser in "
                 "harness/c17_parsing.cxx, clang-14 sanitizer runtimes.  Not a violation by design of the check: UBSan reports "
                 "that are purely arithmetic (signed overflow, float->int out of range) on absurd header values are counted "
                 "(children_stopped_by_arithmetic_overflow_report) but not reported - the statement lists out-of-bounds access, "
                 "unbounded allocation and size mismatch; exceeding the 20 s CPU budget in the sanitizer build is counted, the "
                 "release build judges termination.  libFuzzer only generates inputs (fork mode, crashes ignored); no verdict is taken "
                 "from its own exit status.  20 of 57 registered classes cannot be built without external data (9 more get a few hand-written values) and are only "
                 "exercised through the mutation campaign up to their rejection"),
     assumptions=["an accepted object is judged by the consistency checks listed in `rule`; values other than sizes are not compared "
                  "with the header (faithfulness of values is C02/C10)",
                  "data sets of a dynamic image whose 'data offset in bytes' is not given are read at the default offset 0, as the "
                  "header then says; this is not counted as a size contradiction",
                  "the fixed-point clause is evaluated on objects reached from default construction and numeric perturbation; "
                  "objects accepted from malformed text are printed and re-parsed under the sanitizers but the texts are not compared",
                  "a single allocation is 'unbounded' above 1 GiB; requests between 256 MiB and 1 GiB are refused by the harness "
                  "(bad_alloc) and the input is then not judged"],
     )
