from vlib.props import prop

prop("C17",
     harness="c17_parsing",
     runs={
         "quick": [dict(flavour="asan", mode="roundtrip", cases=285),
                   dict(flavour="asan", mode="keywords", cases=3000),
                   dict(flavour="asan", mode="mutate", cases=16000),
                   dict(flavour="rel", mode="mutate", cases=8000)],
         "thorough": [dict(flavour="asan", mode="roundtrip", cases=2850),
                      dict(flavour="asan", mode="keywords", cases=60000),
                      dict(flavour="asan", mode="mutate", cases=400000),
                      dict(flavour="rel", mode="mutate", cases=400000),
                      dict(flavour="rel", mode="roundtrip", cases=2850)],
     },
     min_nontrivial={"quick": 15000, "thorough": 400000},
     min_obs={"quick": {"mutated_inputs": 20000},
              "thorough": {"mutated_inputs": 700000}},
     rule="TODO",
     technique="TODO",
     level_text="TODO",
     level_note="TODO",
     assumptions=[],
     )
