from vlib.props import prop

prop("C18",
     harness="c18_threads",
     runs={
         "quick": [dict(flavour="tsan", cases=300, max_shards=5, timeout=3000)],
         "thorough": [dict(flavour="tsan", cases=1500, max_shards=4, timeout=8 * 3600)],
     },
     min_nontrivial={"quick": 200, "thorough": 1000},
     min_obs={"quick": {"lazy_runs": 100, "lazy_cases_with_ring_tables_rearmed": 25, "cache_runs": 100, "project_runs": 50, "objective_runs": 40, "scatter_runs": 40,
                        "lazy_first_use_events": 20, "cache_inserts": 100, "bp_local_images_created": 10,
                        "dist_viewgram_events": 50,
                        # projection data shared by all threads through ONE fstream (ProjDataFromStream), as in a real reconstruction
                        "objective_runs_file_backed": 30, "project_runs_file_backed": 40},
              "thorough": {"lazy_runs": 1000, "objective_runs": 300}},
     rule=("case = one workload (round robin: lazy geometry tables used concurrently from the first call / system-matrix cache "
           "from the first call / whole-data forward+back projection / log-likelihood gradient, value, sensitivity, Hessian product "
           "through distributable_computation and the (approximate) Hessian loops, with the measured data and additive term in memory or in an Interfile file that all threads read through one shared stream / single-scatter simulation) on a generated small geometry, with 2..16 threads (also "
           "more threads than work items), repeated with FRESH objects so every first-use race is re-armed (the ring-difference tables, which "
           "the constructor builds, are re-armed in 80% of the lazy-table cases by calling set_ring_spacing / set_min_ring_difference / "
           "set_max_axial_pos_num / reduce_segment_range with the value the object already has), under a seeded PCT-style "
           "schedule perturbation injected at STIR's own synchronisation points; compared with the single-thread run.  "
           "non-trivial = every repetition ran with >1 thread and was compared; distinct = distinct interleaving signatures "
           "(hash of the (site, thread) order at first-use / cache-insert / per-thread-image sites) plus distinct case descriptors"),
     technique="runtime monitoring: ThreadSanitizer+Archer race detection and multi-vs-single-thread result comparison under injected schedule perturbation at hooked synchronisation points",
     level_text=("real OpenMP build (clang libomp + Archer OMPT tool) under ThreadSanitizer; weak call-out hooks at the lazy-table, "
                 "cache, per-thread-image, reduction and distributable sites delay low-priority threads so that first-use and "
                 "insert/lookup interleavings are forced rather than hoped for; oracles: no TSan report with a STIR frame, results "
                 "equal the single-thread run (bit-exact where no reduction is involved, reassociation band otherwise), the set of "
                 "processed (segment, view, TOF, subset) events is a permutation of the single-thread one, no hang"),
     level_note=("trusted: TSan/Archer runtimes; the relaxed-publish annotation (release before the flag write, acquire after reading it "
                 "true; the plain store to ring_diff_arrays_computed declared benign for that one byte) encodes the assumption that a "
                 "relaxed 1-byte store after the table is built acts as a release on x86-64; weak-memory reorderings that x86 cannot "
                 "produce are out of reach; a finite sample of schedules"),
     assumptions=["relaxed-publish annotation policy of DESIGN.md §6 C18 (validated: removing the critical, making the flag accesses "
                  "plain or setting the flag early are still reported)",
                  "list-mode gradients are exercised by C14's harness in single-thread builds only; C18 covers the projection-data paths and scatter"],
     )
