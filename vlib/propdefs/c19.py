from vlib.props import prop

_LENS = {"dft_len_%d" % (1 << p): 20 for p in range(1, 11)}

prop("C19",
     harness="c19_fourier",
     runs={
         "quick": [dict(flavour="asan", cases=5000), dict(flavour="rel", cases=25000)],
         # thorough sized for about 30 min at 6 jobs (asan ~35 ms/case, rel ~3 ms/case per shard-second)
         "thorough": [dict(flavour="asan", cases=25000), dict(flavour="rel", cases=250000)],
     },
     min_nontrivial={"quick": 10000, "thorough": 150000},
     min_obs={"quick": dict(_LENS, dft_checks_1d=2000, dft_checks_2d=2000, dft_checks_3d=2000, dft_real_checks=1500,
                            dft_impulse_checks=300, dft_parseval_checks=3000,
                            filter_vs_convolution_1d=1000, filter_vs_convolution_2d=1000, filter_vs_convolution_3d=1000,
                            conv_direct_checks_2d=500, conv_direct_checks_3d=500, conv_kernel_outer_range_0_0=100,
                            dftfilter_kernel_not_from_0=1000, conv_bc_constant_checks=500, symconv_checks=500,
                            separable_order_checks=500, sepconv_imagefilter_checks=100, sepconv_imagefilter_right_heavy_ranges=100,
                            gaussian_mean_checks=1000, gaussian_impulse_checks=1000, gaussian_imagefilter_cases=200,
                            gaussian_truncated_by_max_kernel_size=500,
                            metz_checks=1000, metz_sum_checks=500, metz_mean_checks=500),
              "thorough": dict({k: 600 for k in _LENS}, dft_checks_1d=50000, dft_checks_2d=50000, dft_checks_3d=50000,
                               filter_vs_convolution_1d=25000, filter_vs_convolution_2d=25000, filter_vs_convolution_3d=25000,
                               conv_kernel_outer_range_0_0=1000, sepconv_imagefilter_right_heavy_ranges=1000,
                               separable_order_checks=12000, gaussian_mean_checks=15000, gaussian_truncated_by_max_kernel_size=5000,
                               metz_checks=25000, metz_sum_checks=8000, metz_mean_checks=8000)},
     rule=("case idx%10 selects the clause: 0-3 DFT (1-D: every power-of-two length 2..1024 in turn; 2-D up to 128x128, 3-D up to 32^3 "
           "/ 8192 elements, outer dimensions of length 1 included; random complex / impulse / constant / real-valued data, sign +-1): "
           "fourier and inverse_fourier vs a naive O(n^2) float64 DFT, inverse(forward), impulse -> constant modulus, Parseval, "
           "fourier_for_real_data (shape, values), pos_frequencies_to_all (exact conjugate copies, values, equality with the complex "
           "transform), inverse_fourier_for_real_data; 4-6 ArrayFilterUsingRealDFTWithPadding<1..3> with a random kernel handed over "
           "on an arbitrary index window (periodic layout), separate / in-place / pre-padded arrays, input and output ranges that "
           "differ, padded length >= 2 x data length, vs direct float64 convolution and vs ArrayFilter1D/2D/3DUsingConvolution "
           "(1-D: also constant boundary conditions and the symmetric-kernel class); 7 SeparableArrayFunctionObject<3> built from "
           "random 1-D filters (zero/constant BC convolution, symmetric kernel, padded DFT) vs successive 1-D operators in STIR's and "
           "in a random axis order, or SeparableConvolutionImageFilter on an image; 8 SeparableGaussianArrayFilter / "
           "SeparableGaussianImageFilter (random FWHM, voxel sizes, max kernel sizes): impulse-response sum == 1 and constant data "
           "preserved wherever the kernel support lies in the constant box; 9 SeparableMetzArrayFilter at power 0: 3-D kernel sum == 1 when no "
           "dimension is cut by max_kernel_size (a cut kernel is documented to be zeroed outside the limit, not renormalised: its sum is "
           "not judged, counter metz_cut_by_max_kernel_size_sum_not_judged), and response to constant data == constant x kernel sum.  non-trivial = data length >= 4, data not constant, kernel overlaps the data (filters: at least "
           "one non-identity axis and a non-empty interior); distinct = distinct case descriptor"),
     technique=("runtime monitoring against independent float64 references (naive DFT, direct convolution, successive 1-D operators with a "
                "propagated rigorous float32 error bound), under ASan/UBSan/asserts and in the release build"),
     level_text=("tens of thousands (quick) / 275 000 (thorough) generated transforms and filter applications on the real classes, every "
                 "power-of-two length 2..1024 in 1-D and 1-3 dimensions, kernels with arbitrary (negative, non-centred, wrapped) index "
                 "ranges, all implemented boundary conditions; every output element is compared with a float64 reference inside a computed "
                 "band (normwise FFT bound 8(log2 N+s) eps32 ||.||, 8(n+2) eps32 sum|terms| for direct sums) that the unchanged tree stays "
                 "30-50x below; sub-checks of classes that index outside their kernel storage run in a forked child so that their crash is "
                 "reported under a class-specific key"),
     level_note=("trusted: the reference code in harness/c19_fourier.cxx; only float instantiations exist; non-power-of-two lengths, "
                 "non-regular arrays, empty kernels and the 'periodic' boundary condition (rejected by the library) are outside the documented "
                 "contract and not generated; the Metz kernel sum is judged with the library's own 1e-3 criterion because its discretisation "
                 "(band limit, coefficients below 1e-4 of the peak dropped) is approximate by design"),
     assumptions=["DFT-filter cases are generated such that all kernel offsets that occur are distinct modulo the padded length "
                  "(no wrap-around), which is the situation the property speaks about; the periodic (aliased) regime is not judged",
                  "SeparableMetzArrayFilter at power 0: |3-D kernel sum - 1| <= 1e-3, the tolerance of STIR's own test_SeparableMetzArrayFilter",
                  "a Metz kernel shortened by max_kernel_size is, as documented (STIR-UsersGuide, Separable Cartesian Metz, rule iii: 'will set "
                  "any other values to 0'), not a kernel that sums to one; whether a dimension is cut is decided by comparing the measured "
                  "half width with that of the same filter built with max_kernel_size -1",
                  "kernel supports of the Gaussian / Metz filters are measured from impulse responses; cases whose support exceeds the "
                  "probe array (Metz half width > 598 voxels) are counted and not judged"],
     )
