from vlib.props import prop

# counters observed in a reference run of 3000 quick-tier cases (seed 1, fixed tree); the minimum demanded of a run is 60% of
# that, scaled to the run's number of cases (thorough-tier scanners are larger, so its entry counts exceed this by far)
_OBS_PER_3000 = {
    # (1) conversions
    "fan_entries_compared": 15839262, "fan_entries_without_bin": 348688, "roundtrips": 3942, "roundtrip_bins_compared": 5020398,
    "gap_entries_checked": 2545010, "det2d_entries_compared": 300310, "det2d_roundtrips": 942,
    # (2) apply / un-apply
    "apply_checks_efficiencies": 3000, "apply_checks_geo": 2396, "apply_checks_block": 2013, "apply_entries_compared": 49459708,
    "apply_checks_efficiencies_2d": 942, "apply_checks_geo_2d": 758, "apply_checks_block_2d": 942,
    # (3) fixed points (exact = bit-exact dyadic pass, generic = random factors with computed band)
    "fixed_point_checks": 32102,
    "fixed_point_checks_efficiencies_exact": 3000, "fixed_point_checks_efficiencies_generic": 3000,
    "fixed_point_checks_efficiencies_without_model_exact": 6000, "fixed_point_checks_efficiencies_without_model_generic": 6000,
    "fixed_point_checks_geo_exact": 2396, "fixed_point_checks_geo_generic": 2396,
    "fixed_point_checks_block_exact": 2013, "fixed_point_checks_block_generic": 2013,
    "fixed_point_checks_efficiencies_2d_exact": 942, "fixed_point_checks_efficiencies_2d_generic": 942,
    "fixed_point_checks_geo_2d_exact": 758, "fixed_point_checks_geo_2d_generic": 758,
    "fixed_point_checks_block_2d_exact": 942, "fixed_point_checks_block_2d_generic": 942,
    "geo_classes_estimated": 611970,
    # (4) KL descent
    "kl_steps_checked": 15870, "kl_steps_checked_stir_value": 6113, "kl_steps_checked_driver": 229,
    # (6) driver
    "driver_runs": 522, "driver_kl_reports": 2678, "driver_outer_iterations_completed": 785,
    # estimation repeated with the --print-KL reports off: the component files must hold the same numbers (per 3000 reference cases)
    "driver_runs_repeated_without_KL_reports": 160, "driver_runs_repeated_without_KL_reports_geo_and_block": 90,
    "driver_component_files_compared_with_and_without_KL_reports": 1200,
    # configuration classes
    "cfg_no_gaps": 1535, "cfg_gaps_transaxial": 744, "cfg_gaps_transaxial_and_axial": 721, "scanners_with_gaps": 1465,
    "cfg_max_delta_0": 594, "cfg_max_delta_partial": 699, "cfg_max_delta_full": 1707, "cfg_full_fan": 429,
    "cfg_geo_unit_is_bucket": 966,
}
_QUICK = [dict(flavour="asan", cases=800), dict(flavour="rel", cases=30000)]
_THOROUGH = [dict(flavour="asan", cases=500), dict(flavour="rel", cases=60000)]


def _min_obs(stages):
    n = sum(st["cases"] for st in stages)
    return {k: int(0.6 * v * n / 3000) for k, v in _OBS_PER_3000.items()}


prop("C20",
     harness="c20_mlnorm",
     runs={
         "quick": _QUICK,      # about 0.6 cpu-s per case under ASan, 8 ms at -O2
         "thorough": _THOROUGH,  # larger scanners: about 5.4 cpu-s per case under ASan, 43 ms at -O2
     },
     min_nontrivial={"quick": 18000, "thorough": 36000},
     min_obs={"quick": _min_obs(_QUICK), "thorough": _min_obs(_THOROUGH)},
     rule=("case = one generated cylindrical scanner (8..40/72 detectors per ring, 1..7/12 rings, 1..6 physical transaxial x 1..3 "
           "axial crystals per block, 1..3 x 1..2 blocks per bucket, even number of transaxial blocks; 45% without virtual crystals, "
           "25% with one virtual transaxial crystal per block (scanner type Siemens_mMR), 30% with one virtual transaxial and one "
           "virtual axial crystal per block (type E1080)) x span-1 non-arc-corrected sampling (max ring difference 0 / partial / "
           "full, number of tangential positions = fan size from 1 to all other detectors, odd and even) x symmetry unit block or "
           "bucket.  Per case: (1) make_fan_data_remove_gaps on data with a unique value per bin, every entry against the bin of "
           "get_bin_for_det_pos_pair and every bin against its entry, set_fan_data_add_gaps round trip with a random gap value; "
           "(2) apply_efficiencies / apply_geo_norm / apply_block_norm and their inverse on every entry; (3) fixed points of "
           "iterate_efficiencies / iterate_geo_norm / iterate_block_norm on exact model data (bit-exact dyadic pass + generic pass); "
           "(4) 2..6 iterate_efficiencies sweeps on Poisson data (0.05..20 counts per LOR, true or mis-specified geo/block model, "
           "constant or random start) with the float64 KL distance over all LORs evaluated before and after every sweep; (5) 60% of "
           "the scanners without gaps: the same for the 2-D DetPairData functions on one sinogram (pair); (6) 35% of the cases that "
           "satisfy the driver's preconditions: ML_estimate_component_based_normalisation (2..4 efficiency sweeps, 1..2 outer "
           "iterations, geo / block / KL switches) in the run's temporary directory.  non-trivial = >= 2 physical rings, >= 8 "
           "physical detectors per ring and at least one fan entry compared; distinct = distinct case descriptor"),
     technique=("runtime monitoring: the real conversion / apply / iterate functions of stir/ML_norm.h and the estimation driver are "
                "executed on generated scanners and data; oracles are the geometry's own detector-pair map (inverse relation), an "
                "independent union-find model of the symmetry classes, exact-arithmetic fixed points and a float64 evaluation of the "
                "Kullback-Leibler distance, under ASan/UBSan/asserts and at -O2"),
     level_text=("for thousands of generated scanners with and without virtual crystals (transaxial only, transaxial and axial), ring "
                 "differences and fan sizes, projection data with a unique value per bin are converted to FanProjData / DetPairData: "
                 "every entry must equal the value of the bin that ProjDataInfoCylindricalNoArcCorr assigns to the un-compressed "
                 "detector pair (0 where there is none), every bin inside the fan with two physical detectors must be found at its "
                 "pair, and the conversion back must restore every bin and put the requested value into every gap bin; "
                 "apply_efficiencies, apply_geo_norm and apply_block_norm are compared entry by entry (4 ulp) with the product of the two "
                 "detectors' factors, the factor of the pair's orbit under rotation by one unit / axial shift by one unit / both "
                 "mirrors (computed by union-find, independent of STIR's index arithmetic) and the block pair's factor, and "
                 "apply=false must restore the data; data generated exactly from a model (all numbers small integers times powers of "
                 "two, so float32 arithmetic is exact and the comparison is bit-exact, plus a generic pass with a computed band) must "
                 "leave efficiencies, geo and block factors unchanged by one iterate_* call and every non-zero entry's class must carry "
                 "the true factor; on Poisson data the float64 Kullback-Leibler distance over all LORs (each once) must not increase "
                 "over any iterate_efficiencies sweep (band from the float32 rounding of one coordinate update), STIR's own KL value "
                 "likewise wherever it is proportional to that sum (2-D data, max ring difference 0); the driver "
                 "ML_estimate_component_based_normalisation must run all its outer iterations, write parseable efficiencies of the "
                 "physical dimensions and report non-increasing KL values over its efficiency sweeps (2-D data).  Detection validated "
                 "on 12 planted mutations, each caught: fan wrap-around bound in FanProjData::is_in_data (fan:pair_not_representable), "
                 "partner efficiency taken from the wrong ring in iterate_efficiencies (fixed_point:efficiencies_exact), wrong modulo in "
                 "the version without model (fixed_point:efficiencies_without_model_*), gap skip '>' for '>=' in make_fan_data (crash) "
                 "and in set_fan_data_add_gaps (roundtrip:gap_value), compressed max ring difference off by one block (crash / "
                 "assert), mirrored detector off by one in apply_geo_norm (apply:geo), un-mirrored ring in make_geo_data "
                 "(fixed_point:geo_exact), 2-D mirrored class index (det2d:fixed_point_geo_exact, det2d:apply_geo), block index "
                 "(apply:block), KL term of empty bins dropped (kl:stir_KL_ascends_2D_data, det2d:kl_iterate_efficiencies_ascends, "
                 "driver:kl_report_ascends), driver KL threshold max/10 (driver:kl_report_ascends)"),
     level_note=("trusted: the 150-line union-find orbit model and the float64 KL in harness/c20_mlnorm.cxx, and C01's subject "
                 "get_bin_for_det_pos_pair / get_det_pair_for_bin as the geometry's pair<->bin map.  STIR's KL(FanProjData) counts "
                 "in-plane LORs twice and oblique LORs once, so it is not proportional to the KL distance when oblique segments are "
                 "present and does increase over some efficiency sweeps (counted as observed_stir_KL_increase_with_oblique_segments, "
                 "not a violation: the statement speaks about the KL distance, which does descend).  Geometric factors need an even "
                 "number of physical transaxial crystals per symmetry unit (asserted by the utilities) and block factors a fan that "
                 "does not reach the detector's own block (BlockData3D has no such element); other configurations skip those "
                 "components (counted).  BlocksOnCylindrical / generic scanners, TOF, view mashing and span > 1 (rejected by "
                 "get_fan_info) are not exercised; the 2-D functions only on scanners without virtual crystals"),
     assumptions=["virtual crystals are generated through the scanner types that hard-wire them (Siemens_mMR: 1 transaxial, E1080: 1 "
                  "transaxial + 1 axial per block); other gap layouts cannot be expressed with stir::Scanner",
                  "Poisson data have < 1e5 counts per LOR so that the driver's KL threshold (max/1e5) only selects empty LORs",
                  "efficiencies / factors are drawn from [0.5, 2] ([0.3, 3] for starting values); data generated from a model are "
                  "strictly positive on every LOR that has a bin"],
     )
