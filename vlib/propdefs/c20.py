from vlib.props import prop

prop("C20",
     harness="c20_mlnorm",
     runs={
         "quick": [dict(flavour="asan", cases=300), dict(flavour="rel", cases=5000)],
         "thorough": [dict(flavour="asan", cases=600), dict(flavour="rel", cases=12000)],
     },
     min_nontrivial={"quick": 100, "thorough": 2000},
     min_obs={"quick": {"fan_entries_compared": 1000}, "thorough": {"fan_entries_compared": 1000}},
     rule="preliminary",
     technique="runtime monitoring",
     level_text="preliminary",
     level_note="preliminary",
     assumptions=[],
     )
