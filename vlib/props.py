"""Per-property check configuration: harness, stages (flavour x cases) per tier, evidence texts."""

SAN_ASSUME = ("clang-14 ASan+UBSan (function and object-size sub-checks excluded, DESIGN.md §2) and STIR's own assert()s are "
              "the memory/UB oracle in the 'asan' flavour; red-zone tools miss non-adjacent and intra-object overflows")
HELD = "verdict is 'held on the executions explored', not a proof for all inputs"

PROPS = {}


def _enabled():
    import os
    f = os.path.join(os.path.dirname(os.path.abspath(__file__)), "enabled.txt")
    if not os.path.exists(f):
        return None
    return set(l.strip() for l in open(f) if l.strip() and not l.startswith("#"))


def prop(pid, **kw):
    en = _enabled()
    if en is not None and pid not in en and "disabled" not in kw:
        # harness still under construction / under review: usable through ./check but not claimed in MANIFEST.json
        kw["disabled"] = "runtime monitor under construction in this round (harness exists but is not yet accepted: see DESIGN.md section 9)"
    kw.setdefault("level", "exploration")
    kw.setdefault("assumptions", [])
    kw["assumptions"] = list(kw["assumptions"]) + [SAN_ASSUME, HELD]
    PROPS[pid] = kw




def _load():
    import glob
    import importlib
    import os
    d = os.path.join(os.path.dirname(os.path.abspath(__file__)), "propdefs")
    for f in sorted(glob.glob(os.path.join(d, "c*.py"))):
        importlib.import_module("vlib.propdefs." + os.path.basename(f)[:-3])


_loaded = False


def load():
    global _loaded
    if not _loaded:
        _loaded = True
        _load()
