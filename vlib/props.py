"""Per-property check configuration: harness, stages (flavour x cases) per tier, evidence texts."""

SAN_ASSUME = ("clang-14 ASan+UBSan (function and object-size sub-checks excluded, DESIGN.md §2) and STIR's own assert()s are "
              "the memory/UB oracle in the 'asan' flavour; red-zone tools miss non-adjacent and intra-object overflows")
HELD = "verdict is 'held on the executions explored', not a proof for all inputs"

PROPS = {}


def prop(pid, **kw):
    kw.setdefault("level", "exploration")
    kw.setdefault("assumptions", [])
    kw["assumptions"] = list(kw["assumptions"]) + [SAN_ASSUME, HELD]
    PROPS[pid] = kw


prop("C11",
     harness="c11_arrays",
     runs={
         "quick": [dict(flavour="asan", cases=51 + 12000), dict(flavour="rel", cases=51 + 30000)],
         "thorough": [dict(flavour="asan", cases=1993 + 100000), dict(flavour="rel", cases=1993 + 300000),
                      dict(flavour="memcheck", cases=2000 + 600, args=[], env={"VERIF_C11_SKIP_EXH": "1"})],
     },
     min_nontrivial={"quick": 10000, "thorough": 100000},
     min_obs={"quick": {"exhaustive_blocks": 102, "random_histories": 10000, "alias_checks": 100, "arith_incompatible": 100},
              "thorough": {"exhaustive_blocks": 3986, "random_histories": 100000}},
     exhaustive={"quick": "all operation sequences of length 3 over the 1-D alphabet (VectorWithOffset, NumericVectorWithOffset, Array<1>)",
                 "thorough": "all operation sequences of length 4 over the 1-D alphabet for the three 1-D classes"},
     rule=("case = one block of 4000 sequences of the bounded-exhaustive enumeration (every sequence of the stated length over the "
           "~40-entry 1-D operation alphabet, per class) or one random history (5..120/500 steps) on VectorWithOffset / "
           "NumericVectorWithOffset / Array<1..4> / memory-viewing Array<1>; after every step the object is compared with a reference "
           "index-range map (size, range, every element, iteration order, at() inside/outside, equality, aliasing of viewed memory). "
           "non-trivial = sequence of >= 2 operations (exhaustive) or history of >= 5 steps; distinct = distinct sequence index / "
           "distinct generated history descriptor"),
     technique="runtime monitoring: history + executable reference map, bounded-exhaustive and random operation histories under ASan/UBSan/asserts and memcheck",
     level_text=("every operation sequence up to a fixed length over a ~40-operation alphabet (exhaustive) plus thousands of long random "
                 "histories on 1-4 dimensional owning and memory-viewing arrays are executed against the real classes; after every step "
                 "the complete observable state is compared with a reference index-range map while ASan/UBSan and STIR's re-armed "
                 "asserts watch every access; thorough adds valgrind memcheck for reads of never-written storage"),
     level_note=("trusted: the 150-line reference map in harness/c11_arrays.cxx, clang-14 sanitizer runtimes, valgrind; arrays containing "
                 "empty sub-arrays and arithmetic with exactly one empty operand are outside the documented contract and not exercised"),
     assumptions=["values are small integers stored as float so arithmetic in the model is exact",
                  "arithmetic with exactly one empty operand is only checked where the documentation pins the result down"],
     )

prop("C01",
     harness="c01_detpairs",
     runs={
         "quick": [dict(flavour="asan", cases=600), dict(flavour="rel", cases=3000)],
         "thorough": [dict(flavour="asan", cases=1500), dict(flavour="rel", cases=12000)],
     },
     min_nontrivial={"quick": 1500, "thorough": 5000},
     min_obs={"quick": {"cfg_axial_compression": 50, "cfg_view_mashing": 50, "cfg_tof": 10, "cfg_tof_mashed": 5, "cfg_even_span": 20,
                        "inverse_roundtrips": 1000, "ring_pairs_checked": 1000},
              "thorough": {"cfg_axial_compression": 1000, "cfg_tof_mashed": 100}},
     rule=("case = one generated (scanner, sampling) configuration: even detector count, 1..5/8 rings, span (odd and even), max ring "
           "difference, view mashing, TOF mashing (odd), tangential/segment truncation, mixed-span GE layout, cylindrical and "
           "blocks-on-cylindrical; thorough adds predefined scanners.  Per configuration ALL ordered detector pairs x ring pairs x "
           "unmashed TOF indices are swept (factorised for >6e6 combinations).  non-trivial = at least one bin has contributors and at "
           "least one pair is assigned; distinct = distinct configuration descriptor"),
     technique="runtime monitoring: exhaustive per-configuration sweep of the real pair<->bin maps checked against the partition/inverse relations, under ASan/UBSan/asserts",
     level_text=("for each of hundreds (quick) / thousands (thorough) of generated geometries the forward map is evaluated on every "
                 "ordered detector pair x ring pair x TOF index, its inverse image is built, and every bin's reported contributor list, "
                 "count, the uncompressed bin<->pair inverses, the swap/TOF-negation rule and the ring-pair partition are compared "
                 "exactly (integers); the asan flavour re-arms STIR's table-index asserts"),
     level_note="trusted: the comparison code in harness/c01_detpairs.cxx; user-defined geometries outside the generated family and ProjDataInfoGeneric crystal maps are not covered",
     assumptions=["TOF mashing factors are restricted to odd values (even ones are documented as unsupported by get_all_det_pos_pairs_for_bin)"],
     )
