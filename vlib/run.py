"""Shard runner, sanitizer/assert/crash triage, known-findings matching, evidence writer."""
import concurrent.futures as cf
import glob
import hashlib
import json
import os
import random
import re
import shutil
import signal
import subprocess
import sys
import tempfile
import time

from . import build
from . import fuzzstage

VERIF = build.VERIF
# VERIF_OUT_DIR: development aid (runs against seeded/planted worktrees must not overwrite the evidence of the real tree)
_OUT = os.environ.get("VERIF_OUT_DIR", VERIF)
EVIDENCE_DIR = os.path.join(_OUT, "evidence")
REPLAY_DIR = os.path.join(_OUT, "replays")
KNOWN_FILE = os.path.join(VERIF, "known_findings.json")
EXIT_SAN = 86

SAN_ENV = {
    "asan": {
        "ASAN_OPTIONS": "halt_on_error=1:abort_on_error=0:exitcode=%d:detect_leaks=0:allocator_may_return_null=0:"
                        "max_allocation_size_mb=4096:detect_stack_use_after_return=0:handle_abort=1:log_path={log}" % EXIT_SAN,
        "UBSAN_OPTIONS": "print_stacktrace=1:halt_on_error=1:exitcode=%d:log_path={log}" % EXIT_SAN,
    },
    "tsan": {
        # no log_path: reports go to stderr, interleaved with the per-case markers written by the harness
        "TSAN_OPTIONS": "halt_on_error=0:exitcode=0:second_deadlock_stack=1:history_size=4:"
                        "suppressions=%s" % os.path.join(VERIF, "tsan.supp"),
        "OMP_TOOL_LIBRARIES": "/usr/lib/llvm-14/lib/libarcher.so",
        "ARCHER_OPTIONS": "verbose=0",
    },
    "rel": {},
}


def log(msg):
    sys.stderr.write("[verif] %s\n" % msg)
    sys.stderr.flush()


# ----------------------------------------------------------------------------- known findings
def load_known():
    """known_findings.json only; VERIF_KNOWN_EXTRA (development aid: a builder's proposed entries that the lead has not
    accepted yet) is never set by the registered commands."""
    out = []
    for fn in [KNOWN_FILE] + [x for x in os.environ.get("VERIF_KNOWN_EXTRA", "").split(":") if x]:
        if os.path.exists(fn):
            with open(fn) as f:
                out += json.load(f).get("findings", [])
    return out


def match_known(known, pid, key):
    for k in known:
        if k.get("status") == "known" and k.get("property") == pid and k.get("key") == key:
            return k
    return None


# ----------------------------------------------------------------------------- log triage
_FRAME = re.compile(r"#\d+\s+0x[0-9a-f]+\s+in\s+(.+?)\s+(/\S+?):(\d+)")
_FRAME_NOFILE = re.compile(r"#\d+\s+0x[0-9a-f]+\s+in\s+(\S+)")


def _short_fn(fn):
    fn = re.sub(r"\(.*", "", fn)          # drop argument list
    fn = re.sub(r"<[^<>]*>", "", fn)      # drop innermost template args (repeat)
    fn = re.sub(r"<[^<>]*>", "", fn)
    fn = re.sub(r"<[^<>]*>", "", fn)
    return fn.strip().split(" ")[-1][-80:]


def stir_frames(text, n=2):
    """first n frames whose source file is under the repository's src tree"""
    out = []
    for m in _FRAME.finditer(text):
        fn, path = m.group(1), m.group(2)
        if "/src/" in path and ("/repo/" in path or build.REPO in path or "/stir" in path.lower()):
            if "/harness/" in path:
                continue
            out.append("%s@%s" % (_short_fn(fn), os.path.basename(path)))
            if len(out) >= n:
                break
    return out


def triage_sanitizer_logs(paths):
    """returns list of (kind, key, excerpt) for each sanitizer report found"""
    reports = []
    for p in paths:
        try:
            text = open(p, errors="replace").read()
        except OSError:
            continue
        if not text.strip():
            continue
        # split in report blocks
        blocks = re.split(r"(?=^=+\d+=+ERROR: AddressSanitizer|^\S+:\d+:\d+: runtime error:|^WARNING: ThreadSanitizer:|^=+\d+=+ERROR: LeakSanitizer)",
                          text, flags=re.M)
        for b in blocks:
            kind = None
            m = re.search(r"ERROR: AddressSanitizer: (\S+)", b)
            if m:
                kind = "asan-" + m.group(1)
            else:
                m = re.search(r"^(\S+):(\d+):\d+: runtime error: (.*)$", b, flags=re.M)
                if m:
                    msg = re.sub(r"[-+]?\d[\d.e+x]*", "N", m.group(3))
                    msg = re.sub(r"0x[0-9a-f]+", "P", msg)
                    kind = "ubsan-" + re.sub(r"[^A-Za-z]+", "_", msg)[:60] + "@" + os.path.basename(m.group(1))
                else:
                    m = re.search(r"WARNING: ThreadSanitizer: ([^(\n]+)", b)
                    if m:
                        kind = "tsan-" + m.group(1).strip().replace(" ", "_")
            if not kind:
                continue
            if kind.startswith("tsan-"):
                # only the access stacks count (not "As if synchronized via sleep", "Location is", "Thread ... created by")
                stacks = [st for st in re.split(r"\n\s*\n", b)
                          if re.match(r"\s*(WARNING: ThreadSanitizer.*\n\s*)?(Previous )?(atomic )?(Atomic )?(read|write|Read|Write) of size", st.strip())
                          or re.search(r"^\s*(Previous )?(Atomic |atomic )?(Read|Write|read|write) of size", st, flags=re.M)]
                stacks = [st for st in stacks if not re.search(r"As if synchronized|Location is|created by|Mutex M", st.split("\n")[0])]

                def runtime_internal(st):
                    # first frame after the interceptor frame(s) that has a module: is it the OpenMP runtime?
                    for ln in st.split("\n"):
                        m2 = re.match(r"\s*#(\d+)\s+(\S+).*\((\S+?)\+0x[0-9a-f]+\)", ln)
                        if not m2:
                            continue
                        mod = m2.group(3)
                        if "libomp" in mod or "libarcher" in mod:
                            return True
                        if m2.group(1) == "0" and "<null>" in ln:
                            continue  # interceptor in the main binary (memset/free/...)
                        return False
                    return False
                if len(stacks) >= 2 and all(runtime_internal(st) for st in stacks[:2]):
                    continue  # both accesses are inside the OpenMP runtime: not a race in STIR code
                fr = []
                for st in stacks[:2]:
                    f = stir_frames(st, 1)
                    if f and f[0] not in fr:
                        fr.append(f[0])
                if not fr:
                    # no STIR frame in either access stack: not attributable to STIR code
                    continue
                frames = sorted(fr)
            else:
                frames = stir_frames(b, 2)
            key = kind + ":" + ":".join(frames)
            reports.append((kind, key, b[:6000]))
    return reports


_ASSERT = re.compile(r"^(?:\S+: )?(\S+?):(\d+): (.+?): Assertion `(.*)' failed", re.M)


def triage_stderr(text):
    m = _ASSERT.search(text)
    if m:
        expr = re.sub(r"\s+", " ", m.group(4))[:60]
        return ("assert", "assert:%s:%s:%s" % (os.path.basename(m.group(1)), _short_fn(m.group(3)), expr), m.group(0))
    return None


# ----------------------------------------------------------------------------- running shards
class ShardResult:
    def __init__(self):
        self.events = []          # parsed json events
        self.crashes = []         # dicts: key, kind, idx, desc, excerpt
        self.timeouts = []
        self.harness_errors = []
        self.san_reports_nonfatal = []  # tsan


def _read_events(path):
    ev = []
    if not os.path.exists(path):
        return ev
    with open(path, errors="replace") as f:
        for line in f:
            line = line.strip()
            if not line:
                continue
            try:
                ev.append(json.loads(line))
            except ValueError:
                pass  # torn last line after a crash
    return ev


def _read_hb(path):
    try:
        return json.loads(open(path).read())
    except Exception:
        return None


def run_shard(exe, flavour, pid, seed, tier, cases, shard, nshards, workdir, timeout_s, extra_env=None,
              only_case=None, wrapper=None, extra_args=None):
    """Run one shard to completion, restarting after crashes at the next case.  Returns ShardResult."""
    res = ShardResult()
    out = os.path.join(workdir, "ev.%d.jsonl" % shard)
    hb = os.path.join(workdir, "hb.%d.json" % shard)
    tmpd = os.path.join(workdir, "tmp.%d" % shard)
    os.makedirs(tmpd, exist_ok=True)
    start = 0
    restarts = 0
    while True:
        logbase = os.path.join(workdir, "san.%d.%d" % (shard, restarts))
        env = dict(os.environ)
        env["STIR_CONFIG_DIR"] = os.path.join(build.REPO, "src", "config")
        env["TMPDIR"] = tmpd
        for k, v in SAN_ENV.get(flavour, {}).items():
            env[k] = v.format(log=logbase)
        if extra_env:
            env.update(extra_env)
        cmd = [exe, "--seed", str(seed), "--tier", tier, "--cases", str(cases), "--shard", "%d/%d" % (shard, nshards),
               "--from", str(start), "--out", out, "--hb", hb, "--tmpdir", tmpd]
        if only_case is not None:
            cmd += ["--case", str(only_case)]
        if extra_args:
            cmd += extra_args
        if wrapper:
            cmd = wrapper + cmd
        errf = os.path.join(workdir, "stderr.%d.%d" % (shard, restarts))
        if os.path.exists(hb):
            os.remove(hb)
        with open(errf, "wb") as ef:
            p = subprocess.Popen(cmd, stdin=subprocess.DEVNULL, stdout=ef, stderr=subprocess.STDOUT, env=env,
                                 cwd=tmpd, start_new_session=True)
            try:
                rc = p.wait(timeout=timeout_s)
                timed_out = False
            except subprocess.TimeoutExpired:
                timed_out = True
                try:
                    os.killpg(p.pid, signal.SIGKILL)
                except OSError:
                    pass
                rc = p.wait()
        sanlogs = glob.glob(logbase + "*")
        reports = triage_sanitizer_logs(sanlogs)
        stderr_full = open(errf, errors="replace").read()
        stderr_text = stderr_full[-20000:]
        if flavour == "tsan":
            # split stderr at the per-case markers and triage each chunk
            chunks = re.split(r"@@VERIF-CASE (\d+)@@", stderr_full)
            # chunks: [pre, idx, text, idx, text, ...]
            for ci in range(1, len(chunks) - 1, 2):
                cidx = int(chunks[ci])
                tmpf = errf + ".chunk"
                with open(tmpf, "w") as cf_:
                    cf_.write(chunks[ci + 1])
                for kind, key, ex in triage_sanitizer_logs([tmpf]):
                    res.san_reports_nonfatal.append(dict(kind=kind, key=key, excerpt=ex, idx=cidx, desc=None))
                os.remove(tmpf)
        if timed_out:
            hbj = _read_hb(hb) or {}
            res.timeouts.append(dict(idx=hbj.get("idx", -1), desc=hbj.get("desc"), stage=hbj.get("stage")))
            crashed_idx = hbj.get("idx", None)
        elif rc == 0:
            break
        else:
            hbj = _read_hb(hb) or {}
            crashed_idx = hbj.get("idx", None)
            fatal = [r for r in reports] if flavour != "tsan" else []
            a = triage_stderr(stderr_text)
            if fatal:
                kind, key, ex = fatal[0]
            elif a:
                kind, key, ex = a
            elif rc < 0:
                kind, key, ex = "signal", "signal:%s:%s" % (signal.Signals(-rc).name, hbj.get("stage", "")), stderr_text[-1500:]
            elif rc == 2 and crashed_idx is None:
                res.harness_errors.append("harness exit 2: " + stderr_text[-800:])
                break
            else:
                # memcheck error-exitcode or unknown exit
                m = re.search(r"==\d+== (Invalid (?:read|write)[^\n]*|Conditional jump[^\n]*|Use of uninitialised[^\n]*|Syscall param[^\n]*)", stderr_text)
                if m:
                    kind = "memcheck"
                    fr = []
                    for mm in re.finditer(r"==\d+==\s+(?:at|by) 0x[0-9A-F]+: (.+?) \((\S+?):(\d+)\)", stderr_text[m.start():m.start() + 4000]):
                        fn, fl = mm.group(1), mm.group(2)
                        if fl.endswith((".cxx", ".inl", ".h", ".txx")) and not fl.startswith(("c", "verif")) or "stir" in fn:
                            fr.append("%s@%s" % (_short_fn(fn), fl))
                        if len(fr) >= 2:
                            break
                    key = "memcheck-%s:%s" % (re.sub(r"[^A-Za-z]+", "_", m.group(1))[:40], ":".join(fr))
                    ex = stderr_text[m.start():m.start() + 3000]
                else:
                    kind, key, ex = "exit", "exit:%d:%s" % (rc, hbj.get("stage", "")), stderr_text[-1500:]
            res.crashes.append(dict(kind=kind, key=key, idx=crashed_idx if crashed_idx is not None else -1,
                                    desc=hbj.get("desc"), excerpt=ex, flavour=flavour))
        if only_case is not None or crashed_idx is None:
            break
        # resume after the crashed case
        nxt = crashed_idx + 1
        while nxt % nshards != shard:
            nxt += 1
        start = nxt
        restarts += 1
        if restarts > 25 or start >= cases:
            break
    res.events = _read_events(out)
    shutil.rmtree(tmpd, ignore_errors=True)
    return res


# ----------------------------------------------------------------------------- a whole check
def run_check(pid, cfg, tier, seed, jobs, replay=None):
    """cfg: dict from props.PROPS[pid].  Returns exit code."""
    t0 = time.time()
    known = load_known()
    os.makedirs(EVIDENCE_DIR, exist_ok=True)
    evidence_path = os.path.join(EVIDENCE_DIR, "%s.json" % pid)
    if replay is None and os.path.exists(evidence_path):
        os.remove(evidence_path)
    stages = cfg["runs"][tier]
    if os.environ.get("VERIF_ONLY_MODE"):
        # development aid (never set by the registered commands): run only the stages of one mode
        stages = [s_ for s_ in stages if s_.get("mode", "") == os.environ["VERIF_ONLY_MODE"]]
    if replay:
        rj = json.load(open(replay))
        stages = [s for s in stages if s["flavour"] == rj["flavour"] and s.get("harness", cfg["harness"]) == rj.get("harness", cfg["harness"])
                  and s.get("mode", "") == rj.get("mode", "")] or \
                 [dict(flavour=rj["flavour"], cases=rj["idx"] + 1, harness=rj.get("harness", cfg["harness"]), mode=rj.get("mode", ""))]
        stages = stages[:1]
        seed = rj["seed"]
        tier = rj.get("tier", tier)
    scratch = os.environ.get("VERIF_SCRATCH", build.BUILD_ROOT)
    os.makedirs(scratch, exist_ok=True)
    workroot = tempfile.mkdtemp(prefix="verif-%s-" % pid, dir=scratch)
    violations = []       # dicts
    known_hits = {}
    harness_errors = []
    timeouts = []
    all_cases = 0
    skipped = 0
    nontrivial_hashes = set()
    sub_evals = 0
    sub_distinct = 0
    obs = {}
    samples = []
    skip_reasons = {}
    per_stage = []
    san_counts = {}
    fuzz_state = {}
    fuzz_dirs = []
    stage_env = {}
    try:
        for si, st in enumerate(stages):
            flavour = st["flavour"]
            hname = st.get("harness", cfg["harness"])
            base_flavour = "rel" if flavour == "memcheck" else flavour
            try:
                exe = build.ensure_harness(base_flavour, hname, st.get("cxxflags", ""), st.get("ldflags", ""))
            except build.BuildError as e:
                harness_errors.append(str(e))
                break
            cases = st["cases"]
            wd_pre = os.path.join(workroot, "s%d" % si)
            os.makedirs(wd_pre, exist_ok=True)
            pre_env = {}
            if st.get("pre") and not replay:
                # stages that judge a directory of inputs (C17 mode "corpus"): committed corpus, or a fresh libFuzzer campaign
                try:
                    if st["pre"] == "corpus_dir":
                        d_, n_, stats_ = fuzzstage.corpus_dir(st)
                    elif st["pre"] == "libfuzzer":
                        d_, n_, stats_ = fuzzstage.libfuzzer(st, seed, wd_pre, jobs)
                        fuzz_state["dir"], fuzz_state["n"] = d_, n_
                    elif st["pre"] == "reuse_fuzz":
                        d_, n_, stats_ = fuzz_state["dir"], fuzz_state["n"], {}
                    else:
                        raise build.BuildError("unknown pre-step %s" % st["pre"])
                except (build.BuildError, OSError, subprocess.SubprocessError, KeyError) as e:
                    harness_errors.append("pre-step %s failed: %s" % (st["pre"], e))
                    break
                for k_, v_ in stats_.items():
                    obs[k_] = max(obs.get(k_, 0), v_)
                if n_ == 0:
                    harness_errors.append("pre-step %s produced no inputs (%s)" % (st["pre"], d_))
                    break
                cases = n_
                pre_env = {"VERIF_C17_CORPUS": d_}
                fuzz_dirs.append(d_)
            wrapper = None
            if flavour == "memcheck":
                wrapper = ["valgrind", "--tool=memcheck", "--error-exitcode=97", "--track-origins=yes", "--quiet",
                           "--exit-on-first-error=yes", "--undef-value-errors=yes", "--leak-check=no"]
            nsh = max(1, min(jobs, cases, st.get("max_shards", jobs)))
            timeout_s = st.get("timeout", 1800 if tier == "quick" else 6 * 3600)
            wd = os.path.join(workroot, "s%d" % si)
            os.makedirs(wd, exist_ok=True)
            extra_env = dict(st.get("env", {}))
            extra_env.update(pre_env)
            if replay and rj.get("env"):
                extra_env.update(rj["env"])
            extra_args = list(st.get("args", []))
            if st.get("mode"):
                extra_env["VERIF_MODE"] = st["mode"]
            if pre_env:
                stage_env[(flavour, st.get("mode", ""))] = pre_env
            ts = time.time()
            results = []
            with cf.ThreadPoolExecutor(nsh) as ex:
                futs = []
                if replay:
                    futs.append(ex.submit(run_shard, exe, base_flavour, pid, seed, tier, cases, 0, 1, wd, timeout_s, extra_env,
                                          rj["idx"], wrapper, extra_args))
                else:
                    for sh in range(nsh):
                        futs.append(ex.submit(run_shard, exe, base_flavour, pid, seed, tier, cases, sh, nsh, wd, timeout_s,
                                              extra_env, None, wrapper, extra_args))
                for f in futs:
                    results.append(f.result())
            st_cases = 0
            st_nontriv = 0
            for r in results:
                harness_errors += r.harness_errors
                for t in r.timeouts:
                    timeouts.append(dict(t, flavour=flavour, harness=hname, mode=st.get("mode", "")))
                for c in r.crashes:
                    violations.append(dict(key=c["key"], idx=c["idx"], desc=c["desc"], witness=c["excerpt"], flavour=flavour,
                                           harness=hname, mode=st.get("mode", ""), kind=c["kind"]))
                    san_counts[c["kind"]] = san_counts.get(c["kind"], 0) + 1
                descs = {e["idx"]: e.get("desc") for e in r.events if e.get("ev") == "case"}
                for c in r.san_reports_nonfatal:
                    if c["desc"] is None:
                        c["desc"] = descs.get(c["idx"])
                    violations.append(dict(key=c["key"], idx=c["idx"], desc=c["desc"], witness=c["excerpt"], flavour=flavour,
                                           harness=hname, mode=st.get("mode", ""), kind=c["kind"]))
                    san_counts[c["kind"]] = san_counts.get(c["kind"], 0) + 1
                done_seen = False
                for e in r.events:
                    if e.get("ev") == "case":
                        all_cases += 1
                        st_cases += 1
                        if e.get("skipped"):
                            skipped += 1
                            w = e.get("skip_why", "?")
                            skip_reasons[w] = skip_reasons.get(w, 0) + 1
                        if e.get("nontrivial"):
                            st_nontriv += 1
                            nontrivial_hashes.add(e.get("hash"))
                        sub_evals += e.get("sub_evals", 0)
                        sub_distinct += e.get("sub_distinct", 0)
                        for k, v in e.get("obs", {}).items():
                            obs[k] = obs.get(k, 0) + v
                        if len(samples) < 3 or (len(samples) < 8 and random.Random(e.get("hash")).random() < 0.02):
                            samples.append(dict(flavour=flavour, idx=e["idx"], desc=e.get("desc")))
                    elif e.get("ev") == "violation":
                        violations.append(dict(key=e["key"], idx=e["idx"], desc=e.get("desc"), witness=e.get("witness"),
                                               flavour=flavour, harness=hname, mode=st.get("mode", ""), kind="monitor"))
                    elif e.get("ev") == "done":
                        done_seen = True
            per_stage.append(dict(flavour=flavour, harness=hname, mode=st.get("mode", ""), cases_requested=cases,
                                  cases_completed=st_cases, nontrivial=st_nontriv, shards=nsh, wall_s=round(time.time() - ts, 1)))
            log("%s stage %d/%d %s[%s%s]: %d/%d cases, %d nontrivial, %.0fs" % (
                pid, si + 1, len(stages), hname, flavour, ("," + st["mode"]) if st.get("mode") else "", st_cases, cases, st_nontriv,
                time.time() - ts))
        # inputs of a libFuzzer campaign live in the work directory: keep them for the replay of violations found in them
        for v in violations:
            pe = stage_env.get((v["flavour"], v["mode"]))
            if not pe:
                continue
            src = pe["VERIF_C17_CORPUS"]
            if src.startswith(workroot):
                dst = os.path.join(REPLAY_DIR, pid, "fuzz-inputs-seed%s" % seed)
                if not os.path.isdir(dst):
                    os.makedirs(os.path.dirname(dst), exist_ok=True)
                    shutil.copytree(src, dst)
                v["env"] = {"VERIF_C17_CORPUS": dst}
            else:
                v["env"] = dict(pe)
    finally:
        shutil.rmtree(workroot, ignore_errors=True)

    # ---- verdict
    new_violation_paths = []
    seen_keys = set()
    n_new = 0
    for v in violations:
        k = match_known(known, pid, v["key"])
        if k:
            known_hits.setdefault(v["key"], dict(what=k.get("what", ""), count=0))["count"] += 1
            continue
        n_new += 1
        if v["key"] in seen_keys:
            continue
        seen_keys.add(v["key"])
        os.makedirs(os.path.join(REPLAY_DIR, pid), exist_ok=True)
        fn = re.sub(r"[^A-Za-z0-9_.-]+", "_", v["key"])[:100] + "-" + hashlib.sha1(v["key"].encode()).hexdigest()[:8] + ".json"
        rp = os.path.join(REPLAY_DIR, pid, fn)
        with open(rp, "w") as f:
            json.dump(dict(property=pid, key=v["key"], kind=v["kind"], flavour=v["flavour"], harness=v["harness"], mode=v["mode"],
                           seed=seed, tier=tier, idx=v["idx"], desc=v["desc"], witness=v["witness"], env=v.get("env"),
                           cmd="./check %s --replay %s" % (pid, os.path.relpath(rp, VERIF))), f, indent=1)
        new_violation_paths.append((v["key"], rp))
    for key, kh in sorted(known_hits.items()):
        print("KNOWN-FINDING: property=%s %s [key=%s, seen %d times in this run]" % (pid, kh["what"], key, kh["count"]))
    # timeouts: inconclusive unless cfg says hang is a violation (C18)
    inconclusive = []
    for t in timeouts:
        inconclusive.append("watchdog fired in %s[%s] at case %s" % (t["harness"], t["flavour"], t["idx"]))

    distinct_nontrivial = len(nontrivial_hashes) + sub_distinct
    evaluations = all_cases + sub_evals
    if replay:
        for key, rp in new_violation_paths:
            print("VIOLATION property=%s replay=%s" % (pid, rp))
        print("replay finished: %d violation(s)" % len(new_violation_paths))
        return 1 if new_violation_paths else 0

    min_nt = cfg.get("min_nontrivial", {}).get(tier, 2)
    coverage = dict(
        evaluations=evaluations,
        distinct_nontrivial=distinct_nontrivial,
        rule=cfg["rule"],
        samples=samples[:8],
        cases=all_cases,
        cases_rejected_by_library=skipped,
        rejection_reasons=skip_reasons,
        observed=obs,
        stages=per_stage,
        sanitizer_or_crash_reports=san_counts,
        known_findings_seen={k: v["count"] for k, v in known_hits.items()},
        inconclusive=inconclusive,
        new_violation_keys=[k for k, _ in new_violation_paths],
    )
    if cfg.get("exhaustive", {}).get(tier):
        coverage["exhaustive"] = True
        coverage["exhaustive_scope"] = cfg["exhaustive"][tier]
    ev = dict(property_id=pid, tier=tier, seed=int(seed), level=cfg.get("level", "exploration"), coverage=coverage,
              assumptions=cfg.get("assumptions", []), wall_s=round(time.time() - t0, 2), violations=n_new)
    rc = 0
    if harness_errors:
        for h in harness_errors:
            log("HARNESS ERROR: " + h)
        rc = 2
    # required observation counters (a run that observed nothing is not a pass)
    for k, mn in cfg.get("min_obs", {}).get(tier, {}).items():
        if obs.get(k, 0) < mn:
            log("INCONCLUSIVE: observed %s=%d < required %d" % (k, obs.get(k, 0), mn))
            rc = 2
    if distinct_nontrivial < min_nt:
        log("INCONCLUSIVE: only %d distinct non-trivial cases observed (< %d)" % (distinct_nontrivial, min_nt))
        rc = 2
    if inconclusive and rc == 0:
        for i in inconclusive:
            log("INCONCLUSIVE: " + i)
        rc = 2
    if new_violation_paths:
        rc = 1
        for key, rp in new_violation_paths:
            print("VIOLATION property=%s replay=%s" % (pid, rp))
    # evidence must validate; distinct_nontrivial>=2 is required by the schema: if not reached we do not write a passing file
    from . import validate
    err = validate.validate(ev, "/root/.vp/EVIDENCE.schema.json")
    if err:
        log("evidence does not validate: %s" % err[:300])
        if rc == 0:
            rc = 2
    with open(evidence_path, "w") as f:
        json.dump(ev, f, indent=1, sort_keys=True)
    print("%s %s seed=%s: %s  evaluations=%d distinct_nontrivial=%d violations=%d known=%d wall=%.0fs" % (
        pid, tier, seed, {0: "HELD (on what was observed)", 1: "VIOLATED", 2: "INCONCLUSIVE/HARNESS-ERROR"}[rc], evaluations,
        distinct_nontrivial, n_new, sum(v["count"] for v in known_hits.values()), time.time() - t0))
    return rc
