"""jsonschema validation that works from the system python (falls back to the tooling venv's interpreter)."""
import json
import shutil
import subprocess
import sys


def validate(obj, schema_path):
    """returns None if valid (or no validator available), else an error string"""
    try:
        import jsonschema
        try:
            jsonschema.validate(obj, json.load(open(schema_path)))
            return None
        except jsonschema.ValidationError as e:
            return str(e)[:500]
    except ImportError:
        pass
    except FileNotFoundError:
        return None
    py = shutil.which("python3-vt") or "/opt/veriftools/pyvenv/bin/python"
    code = ("import sys,json,jsonschema\n"
            "o=json.load(sys.stdin)\n"
            "try:\n jsonschema.validate(o,json.load(open(sys.argv[1])))\n"
            "except jsonschema.ValidationError as e:\n print(str(e)[:500]); sys.exit(3)\n")
    try:
        p = subprocess.run([py, "-c", code, schema_path], input=json.dumps(obj), capture_output=True, text=True, timeout=60)
    except (OSError, subprocess.TimeoutExpired):
        return None
    if p.returncode == 3:
        return p.stdout.strip()
    return None
